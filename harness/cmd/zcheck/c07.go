package main

import (
	"fmt"
	"sort"

	"github.com/RoaringBitmap/roaring/v2"
	segment "github.com/blevesearch/scorch_segment_api/v2"
	zap "github.com/blevesearch/zapx/v16"

	"zverif/sx"
	"zverif/zh"
)

func init() { register("C07", checkC07) }

// iterRun is one use of an iterator: exclusion, optional ReplaceActual, flags, call sequence.
type iterRun struct {
	exceptNil bool
	except    []uint64
	replace   bool
	repl      []uint64
	f, n, l   bool
	ops       []uint64 // Advance targets; 0 = Next
}

func (r iterRun) sx() sx.V {
	return sx.L(sx.Bool(r.exceptNil), sx.Nums(r.except), sx.Bool(r.replace), sx.Nums(r.repl),
		sx.Bool(r.f || r.n || r.l), sx.Bool(r.l), sx.Nums(r.ops))
}

func (r iterRun) String() string {
	ex := "nil"
	if !r.exceptNil {
		ex = fmt.Sprint(r.except)
	}
	rp := ""
	if r.replace {
		rp = fmt.Sprintf(" ReplaceActual(%v)", r.repl)
	}
	return fmt.Sprintf("except=%s%s flags(freq,norm,locs)=(%v,%v,%v) calls(0=Next, t=Advance(t))=%v", ex, rp, r.f, r.n, r.l, r.ops)
}

func bitmapOf(xs []uint64) *roaring.Bitmap {
	bm := roaring.New()
	for _, x := range xs {
		bm.Add(uint32(x))
	}
	return bm
}

// hitsOf extracts a term's postings from a wire content.
func hitsOf(spec sx.V, field, term string) sx.V {
	for _, fd := range spec.L[pDicts].L {
		if string(fd.L[0].B) != field {
			continue
		}
		for _, te := range fd.L[1].L {
			if string(te.L[0].B) == term {
				return te.L[1]
			}
		}
	}
	return sx.L()
}

func postingSx(p segment.Posting, r iterRun) sx.V {
	if p == nil {
		return sx.L()
	}
	if !(r.f || r.n || r.l) {
		return sx.L(sx.N(p.Number()), sx.N(0), sx.N(0), sx.L())
	}
	var ls []sx.V
	if r.l {
		for _, l := range p.Locations() {
			ls = append(ls, locSxOf(l))
		}
	}
	return sx.L(sx.N(p.Number()), sx.N(p.Frequency()), sx.N(p.(*zap.Posting).NormUint64()), sx.List(ls))
}

func locSxOf(l segment.Location) sx.V {
	return sx.L(sx.S(l.Field()), sx.N(l.Pos()), sx.N(l.Start()), sx.N(l.End()), sx.Nums(l.ArrayPositions()))
}

// prealloc state threaded through reuse histories
type reuse struct {
	pl segment.PostingsList
	it segment.PostingsIterator
	// the subset bitmap the caller handed to ReplaceActual earlier: it stays the caller's
	callerBM   *roaring.Bitmap
	callerWant []uint32
}

// runIter executes one run against the implementation; also checks Count / ActualBitmap / DocNum1Hit.
func runIter(seg segment.Segment, field, term string, hits sx.V, r iterRun, ru *reuse) (out sx.V, onehit bool, bad string) {
	defer func() {
		if e := recover(); e != nil {
			bad = fmt.Sprintf("PANIC: %v", e)
		}
	}()
	d, err := seg.Dictionary(field)
	if err != nil {
		return sx.V{}, false, "Dictionary error: " + err.Error()
	}
	var except *roaring.Bitmap
	if !r.exceptNil {
		except = bitmapOf(r.except)
	}
	var prePL segment.PostingsList
	var preIt segment.PostingsIterator
	if ru != nil {
		prePL, preIt = ru.pl, ru.it
	}
	pl, err := d.PostingsList([]byte(term), except, prePL)
	if err != nil {
		return sx.V{}, false, "PostingsList error: " + err.Error()
	}
	// live set per the specification
	ex := map[uint64]bool{}
	for _, x := range r.except {
		ex[x] = true
	}
	var live []uint64
	for _, h := range hits.L {
		if !ex[h.L[0].N] {
			live = append(live, h.L[0].N)
		}
	}
	if pl.Count() != uint64(len(live)) {
		return sx.V{}, false, fmt.Sprintf("Count() = %d, want %d", pl.Count(), len(live))
	}
	it := pl.Iterator(r.f, r.n, r.l, preIt)
	if ru != nil {
		ru.pl, ru.it = pl, it
	}
	// the list is not changed by making an iterator from it: Count again, and a second iterator
	if pl.Count() != uint64(len(live)) {
		return sx.V{}, false, fmt.Sprintf("Count() = %d after an iterator was made from the list, want %d (as before)", pl.Count(), len(live))
	}
	if p2, err := pl.Iterator(false, false, false, nil).Next(); err != nil || (p2 == nil) != (len(live) == 0) || (p2 != nil && p2.Number() != live[0]) {
		return sx.V{}, false, fmt.Sprintf("a second iterator made from the same list starts with %v (err %v), the non-excluded hits are %v", p2, err, live)
	}
	if oi, ok := it.(segment.OptimizablePostingsIterator); ok {
		d1, is1 := oi.DocNum1Hit()
		abm := oi.ActualBitmap()
		if is1 {
			onehit = true
			if len(live) != 1 || live[0] != d1 {
				return sx.V{}, true, fmt.Sprintf("DocNum1Hit() = %d but the non-excluded hits are %v", d1, live)
			}
		} else if abm != nil {
			if got := abm.ToArray(); fmt.Sprint(got) != fmt.Sprint(u32s(live)) && !(len(got) == 0 && len(live) == 0) {
				return sx.V{}, false, fmt.Sprintf("ActualBitmap() = %v but the non-excluded hits are %v", got, live)
			}
		} else if len(live) != 0 && len(hits.L) != 1 {
			return sx.V{}, false, fmt.Sprintf("neither ActualBitmap nor DocNum1Hit describe the non-excluded hits %v", live)
		}
		if len(hits.L) == 1 && abm == nil {
			onehit = true // single-hit encoding whose only document is excluded
		}
		if ru != nil && ru.callerBM != nil {
			if got := ru.callerBM.ToArray(); fmt.Sprint(got) != fmt.Sprint(ru.callerWant) {
				return sx.V{}, onehit, fmt.Sprintf("the bitmap the caller passed to ReplaceActual in an earlier step held %v; after this step recycled that iterator it holds %v (the caller's bitmap was written to)", ru.callerWant, got)
			}
		}
		if r.replace && abm != nil {
			sub := bitmapOf(r.repl)
			oi.ReplaceActual(sub)
			if ru != nil {
				ru.callerBM, ru.callerWant = sub, sub.ToArray()
			}
		}
	}
	var outs []sx.V
	for _, t := range r.ops {
		var p segment.Posting
		var err error
		if t == 0 {
			p, err = it.Next()
		} else {
			p, err = it.Advance(t)
		}
		if err != nil {
			return sx.V{}, onehit, fmt.Sprintf("iterator error: %v", err)
		}
		outs = append(outs, postingSx(p, r))
	}
	return sx.List(outs), onehit, ""
}

func u32s(xs []uint64) []uint32 {
	rv := make([]uint32, len(xs))
	for i, x := range xs {
		rv[i] = uint32(x)
	}
	return rv
}

// askIter asks the model for the outputs of a list of runs on one postings list.
func askIter(c *ctx, mode uint32, ndocs uint64, onehit bool, hits sx.V, runs []iterRun) sx.V {
	rs := make([]sx.V, len(runs))
	for i, r := range runs {
		rs[i] = r.sx()
	}
	a := ask(c, sx.L(sx.N(zh.ReqIter), sx.N(uint64(mode)), sx.N(ndocs), sx.Bool(onehit), hits, sx.List(rs)))
	if code, bad := sx.IsErr(a); bad {
		mustH(fmt.Errorf("model rejected iterator request (error %d)", code))
	}
	return a
}

// legalOps generates a call sequence in which every Advance target lies strictly beyond the last
// returned document (computed on the live list), as the API contract demands.
func legalSeqs(live []uint64, maxDoc uint64, length int) [][]uint64 {
	var out [][]uint64
	var rec func(cur []uint64, pos int, last int64)
	rec = func(cur []uint64, pos int, last int64) {
		out = append(out, append([]uint64(nil), cur...))
		if len(cur) == length {
			return
		}
		// Next
		np, nl := pos, last
		if np < len(live) {
			nl = int64(live[np])
			np++
		}
		rec(append(cur, 0), np, nl)
		for t := uint64(last + 1); t <= maxDoc+1; t++ {
			if t == 0 {
				continue
			}
			p := pos
			for p < len(live) && live[p] < t {
				p++
			}
			l := last
			q := p
			if p < len(live) {
				l = int64(live[p])
				q = p + 1
			} else {
				l = int64(t) // nothing returned; later targets must still grow
			}
			rec(append(cur, t), q, l)
		}
	}
	rec(nil, 0, -1)
	return out
}

func randSeq(c *ctx, live []uint64, maxDoc uint64, length int) []uint64 {
	var ops []uint64
	pos, last := 0, int64(-1)
	for len(ops) < length {
		if c.R.Intn(3) != 0 {
			ops = append(ops, 0)
			if pos < len(live) {
				last = int64(live[pos])
				pos++
			}
			continue
		}
		span := int64(maxDoc) + 2 - (last + 1)
		if span <= 0 {
			ops = append(ops, 0)
			continue
		}
		t := uint64(last+1) + uint64(c.R.Intn(int(span)))
		if t == 0 {
			t = 1
		}
		if c.R.Chance(16) {
			// a target no document number can reach (document numbers are 32-bit quantities)
			t = []uint64{1 << 32, 1<<32 + 1, 1<<32 + uint64(maxDoc), 1 << 40, 1<<63 + 5}[c.R.Intn(5)]
		}
		ops = append(ops, t)
		for pos < len(live) && live[pos] < t {
			pos++
		}
		if pos < len(live) {
			last = int64(live[pos])
			pos++
		} else {
			last = int64(t)
		}
	}
	return ops
}

var flagTriples = [][3]bool{{true, true, true}, {false, false, false}, {true, false, false}, {false, true, false}, {false, false, true}, {true, true, false}}

// tinyBatch: N documents, term "t" of field "f" in exactly the documents of mask.
func tinyBatch(n int, mask int, variant int) zh.Batch {
	var b zh.Batch
	for d := 0; d < n; d++ {
		doc := zh.Doc{Fields: []zh.Field{zh.IDField(fmt.Sprintf("i%02d", d))}}
		f := zh.Field{Name: "f", Len: uint64(2 + d)}
		if mask&(1<<d) != 0 {
			t := zh.Tok{Term: "t", Freq: uint64(1 + (d+variant)%3)}
			if (d+variant)%4 == 3 {
				t.Freq = 0
			}
			if (d+variant)%2 == 0 {
				t.Locs = []zh.Loc{{Pos: uint64(d), Start: 1, End: uint64(2 + d)}}
				if d%3 == 0 {
					t.Locs = append(t.Locs, zh.Loc{Pos: 9, Start: 3, End: 4, AP: []uint64{uint64(d), 1}})
				}
			}
			f.Toks = append(f.Toks, t)
		}
		f.Toks = append(f.Toks, zh.Tok{Term: "other", Freq: 1, Locs: []zh.Loc{{Pos: 1, Start: 0, End: 5}}})
		doc.Fields = append(doc.Fields, f)
		b = append(b, doc)
	}
	return b
}

func compareRuns(c *ctx, seg segment.Segment, mode uint32, ndocs uint64, field, term string, hits sx.V, runs []iterRun, ru *reuse, what string) bool {
	// implementation first (also tells whether the list is single-hit encoded)
	obs := make([]sx.V, len(runs))
	onehit := false
	for i, r := range runs {
		o, oh, bad := runIter(seg, field, term, hits, r, ru)
		if bad != "" {
			c.Violation(fmt.Sprintf("C07 %s\nfield %q term %q, postings %s\n%s\n%s", what, field, term, clip(hits.Pretty()), r, bad), false)
			return false
		}
		obs[i] = o
		onehit = onehit || oh
	}
	exp := askIter(c, mode, ndocs, onehit, hits, runs)
	for i, r := range runs {
		if !sx.Equal(obs[i], exp.L[i]) {
			c.Violation(fmt.Sprintf("C07 %s\nchunk mode %d, %d docs, field %q term %q (single-hit encoding: %v)\npostings (doc freq norm locs): %s\n%s\n  observed: %s\n  expected: %s\n  first difference: %s",
				what, mode, ndocs, field, term, onehit, clip(hits.Pretty()), r, clip(obs[i].Pretty()), clip(exp.L[i].Pretty()), firstDiff(obs[i], exp.L[i], "calls")), false)
			return false
		}
	}
	return true
}

func checkC07(c *ctx) {
	c.Rule = "(G) a term present in all of 12 documents with locations in one or two of them (empty location chunks), chunk sizes 3/4/6/12, every Advance target; (A) bounded-exhaustive: every postings set P over N documents x chunk sizes {1,2,3,N} x every exclusion set (and nil) x every legal Next/Advance sequence up to length L x detail-flag triples, in memory and mmap-opened (quick: N=4, L=2, strided over (P, chunk size); thorough: N<=6, L=3); (B) random larger instances (up to 60 docs, modes incl. 1025/1026, sequences up to 14 calls) with ReplaceActual by a random subset before the first call; (C) single-hit encodings obtained through merges; (E) postings lists of 1030 / 1100 / 2100 entries in chunk modes 1025 and 1026 with exclusion sets of 0 / 90 / 700 entries (the live count crosses a multiple of 1024), drained with Next and walked with Next/Advance; (D) preallocation-reuse histories threading one PostingsList and one iterator object through different terms, absent terms, absent fields and segments; each run compared call by call with the extracted iterator machine (Iter.v / Iter1.v); Count, ActualBitmap and DocNum1Hit compared with the non-excluded hits; non-trivial = postings list with >= 2 hits and >= 2 calls"
	c.Assumptions = append(c.Assumptions, "Advance targets lie strictly beyond the last returned document (API contract, as in the statement)",
		"ReplaceActual happens before the first Next/Advance, with a subset of the actual bitmap (the only caller pattern)")
	// ---------- (A) ----------
	N := c.n(4, 6)
	L := c.n(2, 3)
	stride := c.n(3, 1)
	k := 0
	for mask := 1; mask < 1<<N; mask++ {
		for _, cs := range []int{1, 2, 3, N} {
			k++
			if (k+int(c.Seed))%stride != 0 {
				continue
			}
			b := tinyBatch(N, mask, k)
			spec, err := zh.SpecOf(c.M, b)
			mustH(err)
			sb, _, err := zh.Build(b, uint32(cs))
			if err != nil {
				c.Violation("C07 build failed: "+err.Error(), false)
				return
			}
			var seg segment.Segment = sb
			if k%2 == 0 {
				s, _, err := zh.PersistOpen(sb)
				must(err)
				seg = s
			}
			hits := hitsOf(spec, "f", "t")
			var runs []iterRun
			for em := -1; em < 1<<N; em++ {
				r0 := iterRun{exceptNil: em < 0}
				var live []uint64
				for d := 0; d < N; d++ {
					if em >= 0 && em&(1<<d) != 0 {
						r0.except = append(r0.except, uint64(d))
					} else if mask&(1<<d) != 0 {
						live = append(live, uint64(d))
					}
				}
				seqs := legalSeqs(live, uint64(N-1), L)
				for si, ops := range seqs {
					if len(ops) == 0 {
						continue
					}
					fl := flagTriples[(si+em+k)%len(flagTriples)]
					if !c.Quick && si%2 == 0 {
						fl = flagTriples[si%2]
					}
					r := r0
					r.ops = ops
					r.f, r.n, r.l = fl[0], fl[1], fl[2]
					runs = append(runs, r)
					c.Case(fmt.Sprintf("A-%d-%d-%d-%v-%v", mask, cs, em, ops, fl), len(hits.L) >= 2 && len(ops) >= 2)
				}
			}
			c.CountN("exhaustive_runs", len(runs))
			if k == 3*stride {
				c.Sample(map[string]interface{}{"postings": hits.Pretty(), "chunk_size": cs, "run": runs[len(runs)/2].String()})
			}
			ok := compareRuns(c, seg, uint32(cs), uint64(N), "f", "t", hits, runs, nil, fmt.Sprintf("bounded-exhaustive instance P=%b chunk size %d", mask, cs))
			if s, isSeg := seg.(*zap.Segment); isSeg {
				s.Close()
			}
			if !ok {
				return
			}
		}
	}
	c.Exhaustive = c.Quick == false
	if !longLists(c) {
		return
	}
	if bad := interleavedRecycled(c); bad != "" {
		c.Violation("C07 "+bad, false)
		return
	}
	if !sparseLocations(c) {
		return
	}
	// ---------- (B) random larger instances, (C) single-hit through merges, (D) reuse ----------
	rounds := c.n(60, 1500)
	for i := 0; i < rounds; i++ {
		nolocs := c.R.Chance(3)
		o := zh.RandOpts(c.R, 5+c.R.Intn(56), "r")
		o.NoLocs, o.Freq1 = nolocs, nolocs
		o.VocabN = 2 + c.R.Intn(5)
		o.NFields = 1 + c.R.Intn(3)
		b := zh.GenBatch(c.R, o)
		mode := chunkModes[c.R.Intn(len(chunkModes))]
		e1, err := newBuilt(c, b, mode, c.R.Bool())
		if err != nil {
			c.Violation("C07 build failed: "+err.Error(), false)
			return
		}
		ents := []*segEnt{e1}
		if c.R.Chance(2) {
			// a merged segment (single-hit entries when tokens have frequency 1 and no locations)
			o2 := o
			o2.NDocs = 1 + c.R.Intn(6)
			o2.IDBase = "s"
			e2, err := newBuilt(c, zh.GenBatch(c.R, o2), mode, false)
			must(err)
			mc := &mergeCase{ins: []*segEnt{e1, e2}, drops: [][]uint64{nil, nil}, nilBM: []bool{true, true}, mode: mode}
			spec, _ := specMerge(c, mc)
			r := runMerge(c, mc)
			if r.err != nil || r.seg == nil {
				c.Violation(fmt.Sprintf("C07 merge for single-hit instances failed: %v", r.err), false)
				return
			}
			ents = append(ents, e2, &segEnt{seg: r.seg, spec: spec, n: spec.L[pNDocs].N, prov: "merged"})
		}
		ru := &reuse{}
		useReuse := c.R.Chance(2)
		for q := 0; q < 6; q++ {
			e := ents[c.R.Intn(len(ents))]
			field, term := pickTerm(c, e.spec)
			hits := hitsOf(e.spec, field, term)
			var docs []uint64
			for _, h := range hits.L {
				docs = append(docs, h.L[0].N)
			}
			r := iterRun{exceptNil: c.R.Chance(3)}
			if !r.exceptNil {
				for d := uint64(0); d < e.n; d++ {
					if c.R.Chance(4) {
						r.except = append(r.except, d)
					}
				}
			}
			ex := map[uint64]bool{}
			for _, x := range r.except {
				ex[x] = true
			}
			var live []uint64
			for _, d := range docs {
				if !ex[d] {
					live = append(live, d)
				}
			}
			if len(hits.L) > 1 && c.R.Chance(4) {
				r.replace = true
				for _, d := range live {
					if c.R.Bool() {
						r.repl = append(r.repl, d)
					}
				}
				live = r.repl
			}
			fl := flagTriples[c.R.Intn(len(flagTriples))]
			r.f, r.n, r.l = fl[0], fl[1], fl[2]
			maxDoc := e.n
			r.ops = randSeq(c, live, maxDoc, 1+c.R.Intn(14))
			var rp *reuse
			what := "random instance (" + e.prov + " segment)"
			if useReuse {
				rp = ru
				what = fmt.Sprintf("preallocation-reuse history, step %d (%s segment; PostingsList and iterator objects reused from the previous steps)", q, e.prov)
				c.Count("reuse_steps")
			}
			c.Case(fmt.Sprintf("B-%d-%d", i, q), len(hits.L) >= 2 && len(r.ops) >= 2)
			c.Count("random_runs")
			if len(hits.L) == 0 {
				c.Count("absent_term_or_field")
			}
			if r.replace {
				c.Count("replace_actual")
			}
			md := mode
			if !compareRuns(c, e.seg, md, e.n, field, term, hits, []iterRun{r}, rp, what) {
				return
			}
		}
		for _, e := range ents {
			e.close()
		}
	}
}

// pickTerm chooses a (field, term) of a content; sometimes an absent term or an absent field.
// longLists: (E) postings lists of more than 1024 entries in the cardinality-dependent chunk modes
// (the chunk size is derived from the list's full cardinality by writer and reader alike - also
// when an exclusion bitmap takes the number of live hits across a multiple of 1024).
func longLists(c *ctx) bool {
	cards := []int{1100, 2100, 1030}
	for _, mode := range []uint32{1025, 1026} {
		b := zh.GenBoundaryBatch(c.R, 2300, cards, true)
		e, err := newBuilt(c, b, mode, mode == 1026)
		if err != nil {
			c.Violation("C07 build of the long-list batch failed: "+err.Error(), false)
			return false
		}
		for k := range cards {
			term := zh.BoundaryTerm(k, len(cards))
			hits := hitsOf(e.spec, "tag", term)
			var docs []uint64
			for _, h := range hits.L {
				docs = append(docs, h.L[0].N)
			}
			var runs []iterRun
			for _, nex := range []int{0, 90, 700} {
				r := iterRun{exceptNil: nex == 0, f: true, n: true, l: true}
				perm := append([]uint64(nil), docs...)
				for j := 0; j < nex && j < len(perm); j++ {
					q := j + c.R.Intn(len(perm)-j)
					perm[j], perm[q] = perm[q], perm[j]
				}
				if nex > 0 {
					r.except = append(r.except, perm[:nex]...)
					sort.Slice(r.except, func(a, b int) bool { return r.except[a] < r.except[b] })
				}
				ex := map[uint64]bool{}
				for _, x := range r.except {
					ex[x] = true
				}
				var live []uint64
				for _, d := range docs {
					if !ex[d] {
						live = append(live, d)
					}
				}
				// a full drain with Next, and a walk mixing Next and Advance
				full := r
				full.ops = make([]uint64, len(live)+1)
				walk := r
				walk.ops = randSeq(c, live, e.n, 40)
				runs = append(runs, full, walk)
			}
			c.Case(fmt.Sprintf("long-%d-%s", mode, term), true)
			c.Count("long_list_runs")
			if !compareRuns(c, e.seg, mode, e.n, "tag", term, hits, runs, nil, fmt.Sprintf("long postings list (%d entries, chunk mode %d, %s segment)", len(docs), mode, e.prov)) {
				e.close()
				return false
			}
		}
		e.close()
	}
	return true
}

// interleavedRecycled: (F) two iterator objects that each served a term without locations (locations
// requested) are recycled for two terms with locations and read alternately.
func interleavedRecycled(c *ctx) string {
	var b zh.Batch
	for d := 0; d < 8; d++ {
		doc := zh.Doc{Fields: []zh.Field{zh.IDField(fmt.Sprintf("i%02d", d)),
			{Name: "nl", Len: 2, Toks: []zh.Tok{{Term: "p", Freq: 1}, {Term: "q", Freq: 2}}},
			{Name: "wl", Len: 2, TV: true, Toks: []zh.Tok{
				{Term: "u", Freq: 1, Locs: []zh.Loc{{Pos: uint64(d + 1), Start: uint64(d), End: uint64(d + 2)}}},
				{Term: "v", Freq: 2, Locs: []zh.Loc{{Pos: uint64(50 + d), Start: uint64(100 + d), End: uint64(103 + d)}, {Pos: uint64(60 + d), Start: uint64(200 + d), End: uint64(201 + d)}}}}}}}
		b = append(b, doc)
	}
	for _, opened := range []bool{false, true} {
		e, err := newBuilt(c, b, []uint32{2, 1026}[c.R.Intn(2)], opened)
		if err != nil {
			return "build failed: " + err.Error()
		}
		dn, err := e.seg.Dictionary("nl")
		must(err)
		dw, err := e.seg.Dictionary("wl")
		must(err)
		drain := func(d segment.TermDictionary, term string) segment.PostingsIterator {
			pl, err := d.PostingsList([]byte(term), nil, nil)
			must(err)
			it := pl.Iterator(true, true, true, nil)
			for {
				p, err := it.Next()
				must(err)
				if p == nil {
					return it
				}
			}
		}
		it1, it2 := drain(dn, "p"), drain(dn, "q")
		plu, err := dw.PostingsList([]byte("u"), nil, nil)
		must(err)
		plv, err := dw.PostingsList([]byte("v"), nil, nil)
		must(err)
		iu, iv := plu.Iterator(true, true, true, it1), plv.Iterator(true, true, true, it2)
		hu, hv := hitsOf(e.spec, "wl", "u"), hitsOf(e.spec, "wl", "v")
		r := iterRun{f: true, n: true, l: true}
		for k := 0; k < len(hu.L); k++ {
			pu, err := iu.Next()
			if err != nil {
				return "iterator error: " + err.Error()
			}
			pv, err := iv.Next()
			if err != nil {
				return "iterator error: " + err.Error()
			}
			if gu := postingSx(pu, r); !sx.Equal(gu, hu.L[k]) {
				return fmt.Sprintf("%s segment: two iterators, each recycled from one that served a term without locations, read alternately: term \"u\" hit %d is %s, want %s", e.prov, k, gu.Pretty(), hu.L[k].Pretty())
			}
			if gv := postingSx(pv, r); !sx.Equal(gv, hv.L[k]) {
				return fmt.Sprintf("%s segment: two iterators, each recycled from one that served a term without locations, read alternately: term \"v\" hit %d is %s, want %s", e.prov, k, gv.Pretty(), hv.L[k].Pretty())
			}
		}
		e.close()
		c.Count("interleaved_recycled_iterator_runs")
	}
	c.Case("interleaved-recycled", true)
	return ""
}

func pickTerm(c *ctx, spec sx.V) (string, string) {
	ds := spec.L[pDicts].L
	switch {
	case len(ds) == 0 || c.R.Chance(9):
		return "no-such-field", "x"
	case c.R.Chance(9):
		return string(ds[c.R.Intn(len(ds))].L[0].B), "\x01absent-term"
	}
	fd := ds[c.R.Intn(len(ds))]
	te := fd.L[1].L[c.R.Intn(len(fd.L[1].L))]
	return string(fd.L[0].B), string(te.L[0].B)
}

// sparseLocations: (G) a term that occurs in every one of 12 documents but carries locations in only
// one or two of them, so that whole chunks of its location stream are empty; chunk sizes 3, 4, 6, 12;
// every single Advance target followed by Next calls, and random walks, with and without exclusions,
// locations requested or not.
func sparseLocations(c *ctx) bool {
	const n = 12
	for _, withLocs := range [][]int{{0}, {11}, {5}, {0, 11}, {3, 4}} {
		var b zh.Batch
		for d := 0; d < n; d++ {
			t := zh.Tok{Term: "x", Freq: uint64(1 + d%4)}
			for _, w := range withLocs {
				if w == d {
					t.Locs = []zh.Loc{{Pos: uint64(d + 1), Start: 0, End: 1}, {Pos: uint64(d + 2), Start: 2, End: 3}}
				}
			}
			b = append(b, zh.Doc{Fields: []zh.Field{zh.IDField(fmt.Sprintf("s%02d", d)),
				{Name: "body", Len: uint64(3 + d), Toks: []zh.Tok{t, {Term: "y", Freq: 1}}}}})
		}
		spec, err := zh.SpecOf(c.M, b)
		mustH(err)
		hits := hitsOf(spec, "body", "x")
		for _, cs := range []uint32{3, 4, 6, 12} {
			sb, _, err := zh.Build(b, cs)
			must(err)
			var seg segment.Segment = sb
			if c.R.Bool() {
				s, _, err := zh.PersistOpen(sb)
				must(err)
				seg = s
			}
			var runs []iterRun
			for _, except := range [][]uint64{nil, {1}, {4, 5}, {2, 7, 8}} {
				ex := map[uint64]bool{}
				for _, d := range except {
					ex[d] = true
				}
				var live []uint64
				for d := uint64(0); d < n; d++ {
					if !ex[d] {
						live = append(live, d)
					}
				}
				for _, l := range []bool{true, true, false} {
					base := iterRun{exceptNil: except == nil, except: except, f: true, n: true, l: l}
					for t := uint64(1); t < n; t++ {
						r := base
						r.ops = []uint64{t, 0, 0}
						if t > 2 && c.R.Bool() {
							r.ops = []uint64{0, t, 0, 0}
						}
						runs = append(runs, r)
					}
					for k := 0; k < 4; k++ {
						r := base
						r.ops = randSeq(c, live, n, 6)
						runs = append(runs, r)
					}
				}
			}
			c.Case(fmt.Sprintf("sparse-locs-%v-%d", withLocs, cs), true)
			c.Count("sparse_location_runs")
			ok := compareRuns(c, seg, cs, n, "body", "x", hits, runs, nil, fmt.Sprintf("a term in all of 12 documents with locations only in documents %v (empty location chunks), chunk size %d", withLocs, cs))
			if s, isSeg := seg.(*zap.Segment); isSeg {
				s.Close()
			}
			if !ok {
				return false
			}
		}
	}
	return true
}
