package main

import (
	"fmt"
	"os"
	"runtime/debug"

	"github.com/RoaringBitmap/roaring/v2"
	segment "github.com/blevesearch/scorch_segment_api/v2"
	zap "github.com/blevesearch/zapx/v16"

	"zverif/sx"
	"zverif/zh"
)

// segEnt is a segment together with the content the model says it has.
type segEnt struct {
	seg   segment.Segment
	spec  sx.V // wire content
	n     uint64
	prov  string
	desc  string // how to rebuild it (for replays)
	depth int
}

func (e *segEnt) close() {
	if s, ok := e.seg.(*zap.Segment); ok {
		s.Close()
	}
}

// newBuilt builds a batch and wraps it (in memory or persisted+opened).
func newBuilt(c *ctx, b zh.Batch, mode uint32, opened bool) (*segEnt, error) {
	spec, err := zh.SpecOf(c.M, b)
	mustH(err)
	sb, _, err := zh.Build(b, mode)
	if err != nil {
		return nil, err
	}
	e := &segEnt{seg: sb, spec: spec, n: uint64(len(b)), prov: "built", desc: fmt.Sprintf("build mode=%d batch=%s", mode, b.Sx().String())}
	if opened {
		s, _, err := zh.PersistOpen(sb)
		if err != nil {
			return nil, err
		}
		e.seg = s
		e.prov = "opened"
	}
	return e, nil
}

type mergeCase struct {
	ins   []*segEnt
	drops [][]uint64 // nil entry = nil bitmap
	nilBM []bool
	mode  uint32
}

func (mc *mergeCase) bitmaps() []*roaring.Bitmap {
	rv := make([]*roaring.Bitmap, len(mc.ins))
	for i := range mc.ins {
		if mc.nilBM[i] {
			continue
		}
		rv[i] = roaring.New()
		for _, d := range mc.drops[i] {
			rv[i].Add(uint32(d))
		}
	}
	return rv
}

func (mc *mergeCase) describe() string {
	s := fmt.Sprintf("merge chunkMode=%d of %d segment(s)\n", mc.mode, len(mc.ins))
	for i, e := range mc.ins {
		dr := "nil"
		if !mc.nilBM[i] {
			dr = fmt.Sprint(mc.drops[i])
		}
		s += fmt.Sprintf("  input %d: %s, %d docs, drops=%s\n    content: %s\n    origin: %s\n", i, e.prov, e.n, dr, clip(e.spec.Pretty()), clip(e.desc))
	}
	return s
}

// specMerge asks the model for the merged content and the doc-number maps.
func specMerge(c *ctx, mc *mergeCase) (sx.V, sx.V) {
	cs := make([]sx.V, len(mc.ins))
	ds := make([]sx.V, len(mc.ins))
	for i, e := range mc.ins {
		cs[i] = e.spec
		ds[i] = sx.Nums(mc.drops[i])
	}
	a := ask(c, sx.L(sx.N(zh.ReqSpecMerge), sx.List(cs), sx.List(ds)))
	if _, bad := sx.IsErr(a); bad {
		mustH(fmt.Errorf("model rejected spec_merge request"))
	}
	return a.L[0], a.L[1]
}

type mergeResult struct {
	obs      sx.V
	maps     [][]uint64
	size     uint64
	fileLen  int64
	path     string
	seg      *zap.Segment
	err      error
	dumpErr  error
	fileData []byte
}

func runMerge(c *ctx, mc *mergeCase) *mergeResult {
	segs := make([]segment.Segment, len(mc.ins))
	for i, e := range mc.ins {
		segs[i] = e.seg
	}
	r := &mergeResult{}
	r.maps, r.size, r.path, r.err = zh.Merge(segs, mc.bitmaps(), mc.mode)
	if r.err != nil {
		return r
	}
	if fi, err := os.Stat(r.path); err == nil {
		r.fileLen = fi.Size()
	}
	r.fileData, _ = os.ReadFile(r.path)
	s, err := zh.Plugin.Open(r.path)
	if err != nil {
		r.err = fmt.Errorf("open merged file: %v", err)
		return r
	}
	r.seg = s.(*zap.Segment)
	cont, err := zh.Dump(r.seg)
	if err != nil {
		r.dumpErr = err
		return r
	}
	cont.NormalizeMerged()
	r.obs = cont.Sx()
	return r
}

// mergeVerdict compares one merge with the model on the given parts (+ maps / size when asked).
func mergeVerdict(c *ctx, mc *mergeCase, parts []int, checkMaps bool) (bad string, out *mergeResult, spec sx.V) {
	spec, maps := specMerge(c, mc)
	r := runMerge(c, mc)
	if r.err != nil {
		return "Merge returned error: " + r.err.Error(), r, spec
	}
	if r.dumpErr != nil {
		return "merged segment cannot be read back: " + r.dumpErr.Error(), r, spec
	}
	if checkMaps {
		if len(r.maps) != len(mc.ins) {
			return fmt.Sprintf("Merge returned %d doc-number maps for %d inputs", len(r.maps), len(mc.ins)), r, spec
		}
		for i := range mc.ins {
			if !sx.Equal(sx.Nums(r.maps[i]), maps.L[i]) {
				return fmt.Sprintf("doc-number map of input %d is %v, want %s", i, r.maps[i], maps.L[i].Pretty()), r, spec
			}
		}
		if int64(r.size) != r.fileLen {
			return fmt.Sprintf("Merge reported size %d but the file has %d bytes", r.size, r.fileLen), r, spec
		}
	}
	if d := partsDiffer(r.obs, spec, parts); len(d) > 0 {
		return "merged content differs in " + fmt.Sprint(d) + "\n" + describeDiff(r.obs, spec, parts), r, spec
	}
	if p := parseMergedAgainst(c, r.fileData, spec, parts); p != "" {
		return "merged file decoded by the extracted v16 parser: " + p, r, spec
	}
	// segments are immutable: every input still answers as it did before the merge
	for i, e := range mc.ins {
		cont, err := zh.Dump(e.seg)
		if err != nil {
			return fmt.Sprintf("input %d (%s segment) cannot be read any more after the merge: %v", i, e.prov, err), r, spec
		}
		if e.depth > 0 || e.prov == "merged" || e.prov == "re-merged" {
			cont.NormalizeMerged()
		}
		all := []int{pNDocs, pFields, pDicts, pStored, pDV, pThes}
		if d := partsDiffer(cont.Sx(), e.spec, all); len(d) > 0 {
			return fmt.Sprintf("input %d (%s segment) answers differently after the merge than before it, in %v\n%s", i, e.prov, d, describeDiff(cont.Sx(), e.spec, all)), r, spec
		}
	}
	return "", r, spec
}

// genMergeInputs creates a small pool of related segments (shared vocabulary and field names).
func genMergeInputs(c *ctx, k int, syn bool) []*segEnt {
	base := zh.RandOpts(c.R, 0, "")
	if c.R.Chance(3) {
		base.NoLocs, base.Freq1 = true, true // merges then produce single-hit dictionary entries
	}
	base.VocabN = 2 + c.R.Intn(6)
	var pool []*segEnt
	// field lists of equal length that differ: every input draws its own subset of this size
	subsetSize := 0
	if c.R.Chance(3) {
		subsetSize = 1 + c.R.Intn(4)
	}
	for i := 0; i < k; i++ {
		o := base
		o.NDocs = c.R.Intn(8)
		if c.R.Chance(4) {
			o.NDocs = 8 + c.R.Intn(10)
		}
		if c.R.Chance(8) {
			o.NDocs = 0
		}
		o.IDBase = string(rune('a' + i))
		switch c.R.Intn(3) {
		case 0: // identical field lists
			o.FixedFields = true
		case 1:
			o.FixedFields = false
		default:
			o.NFields = 1 + c.R.Intn(len(zh.FieldNames))
		}
		if subsetSize > 0 {
			perm := make([]int, len(zh.FieldNames))
			for j := range perm {
				perm[j] = j
			}
			for j := range perm {
				q := j + c.R.Intn(len(perm)-j)
				perm[j], perm[q] = perm[q], perm[j]
			}
			o.FieldSel, o.NFields, o.FixedFields = perm[:subsetSize], subsetSize, true
		}
		b := zh.GenBatch(c.R, o)
		if c.R.Chance(3) {
			// a doc-value field missing from a run of documents: whole empty doc-value chunks between populated ones
			if sb := sparsify(c, cloneBatch(b)); sb.InDomain() {
				b = sb
			}
		}
		if c.R.Chance(6) && len(b) > 0 {
			// one field name keeps its instances (stored values) but loses every token: the segment
			// knows the field and has an empty dictionary for it
			victim := o.FName(c.R.Intn(o.NFields))
			for di := range b {
				for fi := range b[di].Fields {
					if f := &b[di].Fields[fi]; f.Name == victim {
						f.Toks, f.Len, f.Stored = nil, 0, true
					}
				}
			}
		}
		if syn {
			b = zh.AddSynDocs(c.R, b, o.IDBase)
		}
		e, err := newBuilt(c, b, randMode(c), c.R.Bool())
		if err != nil {
			must(fmt.Errorf("building merge input: %v", err))
		}
		pool = append(pool, e)
	}
	return pool
}

func genDrops(c *ctx, n uint64) (drops []uint64, isNil bool) {
	switch c.R.Intn(6) {
	case 0:
		return nil, true
	case 1:
		return nil, false // empty bitmap
	case 2:
		for d := uint64(0); d < n; d++ {
			drops = append(drops, d)
		}
		return drops, false
	default:
		for d := uint64(0); d < n; d++ {
			if c.R.Chance(3) {
				drops = append(drops, d)
			}
		}
		return drops, false
	}
}

var mergeModes = []uint32{1, 2, 3, 1024, 1025, 1026}

func genMergeCase(c *ctx, pool []*segEnt) *mergeCase {
	k := 1 + c.R.Intn(4)
	mc := &mergeCase{mode: mergeModes[c.R.Intn(len(mergeModes))]}
	for i := 0; i < k; i++ {
		e := pool[c.R.Intn(len(pool))]
		mc.ins = append(mc.ins, e)
		d, isNil := genDrops(c, e.n)
		mc.drops = append(mc.drops, d)
		mc.nilBM = append(mc.nilBM, isNil)
	}
	return mc
}

func survivors(mc *mergeCase) uint64 {
	var n uint64
	for i, e := range mc.ins {
		n += e.n - uint64(len(mc.drops[i]))
	}
	return n
}

// mergeRounds drives `rounds` merge chains; f is called for every merge performed.
func mergeRounds(c *ctx, rounds int, syn bool, parts []int, checkMaps bool, prop string, extra func(mc *mergeCase, r *mergeResult, spec sx.V) string) bool {
	savedDV := zap.LegacyChunkMode
	defer func() { zap.LegacyChunkMode = savedDV }()
	for round := 0; round < rounds; round++ {
		// the doc-value chunk size is a process-wide setting: one value per round, for builds, merges and reads
		zap.LegacyChunkMode = savedDV
		if c.R.Chance(2) {
			zap.LegacyChunkMode = dvChunkSizes[c.R.Intn(len(dvChunkSizes))]
		}
		c.Count(fmt.Sprintf("dvchunk=%d", zap.LegacyChunkMode))
		pool := genMergeInputs(c, 2+c.R.Intn(3), syn)
		steps := 1 + c.R.Intn(3)
		ok := true
		var reuseFirst *segEnt // the output of a merge in which nothing survived: it goes first into the next merge
		for s := 0; s < steps && ok; s++ {
			mc := genMergeCase(c, pool)
			if reuseFirst != nil {
				mc.ins[0], mc.drops[0], mc.nilBM[0] = reuseFirst, nil, true
				if len(mc.ins) == 1 {
					e := pool[c.R.Intn(len(pool))]
					d, isNil := genDrops(c, e.n)
					mc.ins, mc.drops, mc.nilBM = append(mc.ins, e), append(mc.drops, d), append(mc.nilBM, isNil)
				}
				reuseFirst = nil
				c.Count("zero_survivor_output_reused_first")
			}
			key := mc.describe()
			surv := survivors(mc)
			c.Case(key, len(mc.ins) >= 2 && surv >= 2)
			c.Count(fmt.Sprintf("inputs=%d", len(mc.ins)))
			c.Count(fmt.Sprintf("mode=%d", mc.mode))
			maxDepth := 0
			for i, e := range mc.ins {
				c.Count("input_" + e.prov)
				if mc.nilBM[i] {
					c.Count("drops_nil")
				} else if len(mc.drops[i]) == 0 {
					c.Count("drops_empty")
				} else if uint64(len(mc.drops[i])) == e.n {
					c.Count("drops_all")
				} else {
					c.Count("drops_some")
				}
				if e.depth > maxDepth {
					maxDepth = e.depth
				}
			}
			c.Count(fmt.Sprintf("chain_depth=%d", maxDepth+1))
			if surv == 0 {
				c.Count("zero_survivors")
			}
			if round == 1 && s == 0 {
				c.Sample(map[string]interface{}{"merge": clip(key)})
			}
			// a preceding merge of the same inputs abandoned at a random write (whatever merges keep
			// in pools must not leak into the next one)
			abandoned := ""
			if c.R.Chance(3) {
				segs := make([]segment.Segment, len(mc.ins))
				for j, e := range mc.ins {
					segs[j] = e.seg
				}
				total := 64
				for _, e := range mc.ins {
					total += len(segBytes(e))
				}
				for try := 0; try < 4; try++ {
					ch := make(chan struct{})
					cl := &closer{k: uint64(c.R.Intn(total)), ch: ch}
					apath := zh.TmpPath("abandoned")
					_, _, aerr := zap.VerifMerge(segs, mc.bitmaps(), apath, mc.mode, ch, cl)
					os.Remove(apath)
					abandoned += fmt.Sprintf("\n(preceded by a merge of the same inputs abandoned after %d bytes had been written: %v)", cl.k, aerr)
					c.Count("preceded_by_abandoned_merge")
				}
			}
			bad, r, spec := mergeVerdict(c, mc, parts, checkMaps)
			if bad != "" {
				bad += abandoned
			}
			if bad == "" && extra != nil {
				bad = extra(mc, r, spec)
			}
			if bad != "" {
				if !classifyMergeFinding(c, prop, mc, bad) {
					c.Violation(prop+" "+bad+"\n"+key, false)
					ok = false
				}
				if r.seg != nil {
					r.seg.Close()
				}
				break
			}
			// the output joins the pool (chains of merges)
			pool = append(pool, &segEnt{seg: r.seg, spec: spec, n: spec.L[pNDocs].N, prov: "merged", desc: "output of: " + clip(key), depth: maxDepth + 1})
			if surv == 0 {
				reuseFirst = pool[len(pool)-1]
				if s == steps-1 && steps < 4 {
					steps++ // one more merge so that the empty output is used
				}
			}
		}
		for _, e := range pool {
			e.close()
		}
		if !ok {
			return false
		}
	}
	return true
}

// classifyMergeFinding matches a disagreement against the committed known findings.
func classifyMergeFinding(c *ctx, prop string, mc *mergeCase, bad string) bool {
	if survivors(mc) == 0 {
		if kf := c.Known.Match(prop, "merge-zero-survivors"); kf != nil {
			c.KnownFinding(kf.What)
			return true
		}
	}
	return false
}

// ---------------- C05 ----------------

func init() { register("C05", checkC05) }

func checkC05(c *ctx) {
	c.Rule = "chains (depth <= 3) of merges of 1-4 segments drawn from a pool of related segments (built / persisted+opened / outputs of earlier merges; identical, overlapping and disjoint field lists; empty segments) x deletion bitmaps {nil, empty, random, all} x merge chunk modes; observed: returned doc-number maps, reported size vs file length, Count, Fields, stored visits, DocID, DocNumbers of the re-opened output and the extracted parser's reading of the file; expected = extracted spec_merge; non-trivial = >= 2 inputs and >= 2 survivors"
	c.Assumptions = append(c.Assumptions, "inputs inside the domain W1-W8; the merged file is observed after re-opening it")
	parts := []int{pNDocs, pFields, pStored}
	if !mergeRounds(c, c.n(110, 2500), false, parts, true, "C05", func(mc *mergeCase, r *mergeResult, spec sx.V) string {
		return storedAPIFromSpec(c, r.seg, spec)
	}) {
		return
	}
	if bad := retainedMaps(c); bad != "" {
		c.Violation("C05 doc-number maps returned by a merge belong to the caller\n"+bad, false)
		return
	}
	// byte-identical documents in different inputs (a document indexed twice, both copies alive), with
	// inputs that are rewritten (a deletion) and inputs that are copied (none) in between
	{
		mkd := func(id, val string) zh.Doc {
			return zh.Doc{Fields: []zh.Field{zh.IDField(id), {Name: "body", Typ: 't', Stored: true, Val: []byte(val), Len: 1, Toks: []zh.Tok{{Term: val, Freq: 1}}}}}
		}
		x := mkd("same", "identical-content")
		shapes := [][]zh.Batch{
			{{mkd("q", "qq"), x}, {mkd("r", "rr"), mkd("s", "ss")}, {mkd("u", "uu"), x, mkd("t", "tt")}, {mkd("v", "vv")}},
			{{x, mkd("q", "qq")}, {x}, {mkd("u", "uu"), x}},
		}
		dropsOf := [][][]uint64{{{0}, nil, {0}, nil}, {{1}, nil, {0}}}
		for si, bs := range shapes {
			var ins []*segEnt
			var nilBM []bool
			for bi, b := range bs {
				e, err := newBuilt(c, b, 1026, bi%2 == 1)
				must(err)
				ins = append(ins, e)
				nilBM = append(nilBM, dropsOf[si][bi] == nil)
			}
			mc := &mergeCase{ins: ins, drops: dropsOf[si], nilBM: nilBM, mode: 1026}
			c.Case(fmt.Sprintf("identical-documents-%d", si), true)
			c.Count("merges_with_identical_documents_in_several_inputs")
			bad, r, spec := mergeVerdict(c, mc, parts, true)
			if bad == "" && r.seg != nil {
				bad = storedAPIFromSpec(c, r.seg, spec)
			}
			if r != nil && r.seg != nil {
				r.seg.Close()
			}
			for _, e := range ins {
				e.close()
			}
			if bad != "" {
				c.Violation(fmt.Sprintf("C05 merge of inputs that contain byte-identical live documents (same _id, same stored value), rewritten inputs (one deletion) and copied inputs (none) alternating\n%s\n%s", clip(bad), clip(mc.describe())), false)
				return
			}
		}
	}
	// inputs whose documents carry nothing but _id (no other field, no composite field): nothing, one
	// document or everything survives
	for _, shape := range []string{"all deleted", "one survivor", "nothing deleted"} {
		var ins []*segEnt
		var drops [][]uint64
		var nilBM []bool
		for si, n := range []int{3, 2} {
			var b zh.Batch
			for d := 0; d < n; d++ {
				b = append(b, zh.Doc{Fields: []zh.Field{zh.IDField(fmt.Sprintf("o%d%02d", si, d))}})
			}
			e, err := newBuilt(c, b, 1026, si == 1)
			must(err)
			ins = append(ins, e)
			var dr []uint64
			for d := 0; d < n; d++ {
				if shape == "all deleted" || (shape == "one survivor" && !(si == 0 && d == 1)) {
					dr = append(dr, uint64(d))
				}
			}
			drops, nilBM = append(drops, dr), append(nilBM, false)
		}
		mc := &mergeCase{ins: ins, drops: drops, nilBM: nilBM, mode: 1026}
		c.Case("id-only-"+shape, true)
		c.Count("merges_of_id_only_segments")
		bad, r, spec := mergeVerdict(c, mc, parts, true)
		if bad == "" && r.seg != nil {
			bad = storedAPIFromSpec(c, r.seg, spec)
		}
		if r != nil && r.seg != nil {
			r.seg.Close()
		}
		for _, e := range ins {
			e.close()
		}
		if bad != "" {
			c.Violation(fmt.Sprintf("C05 merge of two segments (3 + 2 documents) whose documents carry nothing but _id, %s\n%s", shape, clip(bad)), false)
			return
		}
	}
}

// retainedMaps: the maps returned by a merge of a 3000-document segment are kept while further
// merges of that size run; they must still be the numbering of their own merge afterwards (expected
// numbering by construction: survivors consecutive, dropped documents at the all-ones sentinel).
func retainedMaps(c *ctx) string {
	old := debug.SetGCPercent(-1)
	defer debug.SetGCPercent(old)
	var b zh.Batch
	for d := 0; d < 3000; d++ {
		b = append(b, zh.Doc{Fields: []zh.Field{zh.IDField(fmt.Sprintf("r%05d", d)), {Name: "body", Len: 1, Toks: []zh.Tok{{Term: fmt.Sprintf("w%d", d%30), Freq: 1}}}}})
	}
	sb, _, err := zh.Build(b, 1026)
	if err != nil {
		return "build failed: " + err.Error()
	}
	type kept struct {
		m     []uint64
		drops map[uint64]bool
	}
	var keep []kept
	for round := 0; round < 3; round++ {
		drops := map[uint64]bool{}
		bm := roaring.New()
		for k := 0; k < 5+round*3; k++ {
			d := uint64(c.R.Intn(3000))
			drops[d] = true
			bm.Add(uint32(d))
		}
		path := zh.TmpPath("c05big")
		maps, _, err := zap.VerifMerge([]segment.Segment{sb}, []*roaring.Bitmap{bm}, path, 1026, nil, nil)
		os.Remove(path)
		if err != nil || len(maps) != 1 {
			return fmt.Sprintf("merge failed: %v", err)
		}
		keep = append(keep, kept{maps[0], drops})
		c.Count("retained_map_merges")
		for ki, k := range keep {
			next := uint64(0)
			for d := uint64(0); d < 3000; d++ {
				want := next
				if k.drops[d] {
					want = ^uint64(0)
				} else {
					next++
				}
				if k.m[d] != want {
					return fmt.Sprintf("the doc-number map returned by merge %d (3000 documents, %d deleted), read again after merge %d of the same size returned: entry %d is %d, its merge numbered it %d", ki, len(k.drops), round, d, k.m[d], want)
				}
			}
		}
	}
	c.Case("retained-maps", true)
	return ""
}

// storedAPIFromSpec checks DocID / DocNumbers / out-of-range visits of a segment against a content.
func storedAPIFromSpec(c *ctx, seg segment.Segment, spec sx.V) (bad string) {
	defer func() {
		if r := recover(); r != nil {
			bad = fmt.Sprintf("PANIC in stored-field API of the merged segment: %v", r)
		}
	}()
	n := spec.L[pNDocs].N
	ids := map[string][]uint32{}
	var all []string
	for d := uint64(0); d < n; d++ {
		want := spec.L[pStored].L[d].L[0].L[2].B
		got, err := seg.DocID(d)
		if err != nil || string(got) != string(want) {
			return fmt.Sprintf("DocID(%d) = %q (err %v), want %q", d, got, err, want)
		}
		ids[string(want)] = append(ids[string(want)], uint32(d))
		all = append(all, string(want))
	}
	if id, err := seg.DocID(n); err != nil || id != nil {
		return fmt.Sprintf("DocID(Count) = %q, %v", id, err)
	}
	for _, d := range []uint64{n, n + 1, 1 << 32, 1<<32 + 1, 1 << 63} {
		calls := 0
		if err := seg.VisitStoredFields(d, func(string, byte, []byte, []uint64) bool { calls++; return true }); err != nil || calls != 0 {
			return fmt.Sprintf("VisitStoredFields(%d) beyond Count (%d) made %d callbacks (err %v)", d, n, calls, err)
		}
	}
	for trial := 0; trial < 4; trial++ {
		var list []string
		want := roaring.New()
		for j := c.R.Intn(5); j > 0; j-- {
			switch c.R.Intn(4) {
			case 0:
				list = append(list, "zzzz-greater-than-every-key")
			case 1:
				list = append(list, "\x00absent")
			default:
				if len(all) > 0 {
					id := all[c.R.Intn(len(all))]
					list = append(list, id)
					for _, d := range ids[id] {
						want.Add(d)
					}
				}
			}
		}
		got, err := seg.DocNumbers(list)
		if err != nil {
			return "DocNumbers error " + err.Error()
		}
		if !got.Equals(want) {
			return fmt.Sprintf("DocNumbers(%q) = %v, want %v", list, got.ToArray(), want.ToArray())
		}
	}
	return ""
}

// ---------------- C06 ----------------

func init() { register("C06", checkC06) }

func checkC06(c *ctx) {
	c.Rule = "the C05 merge-chain generator with token-level content (shared vocabulary so terms occur in several segments; one third of the pools use frequency-1 tokens without locations so that merges write single-hit dictionary entries and later merges read them; byte-copy path when field lists are identical) x merge chunk modes {1,2,3,1024,1025,1026}; observed: complete dictionary/postings dump and doc-value visits of the re-opened output + the extracted parser's reading of the file; expected = extracted spec_merge; plus boundary merges where a term has 1023/1024/1025 postings before or after deletions; plus the merge enumerator itself (verif hook VerifEnumerate over real vellum FSTs: 1-5 sorted key/value lists with the empty key, shared keys, single-hit codes, the empty key with value 0) against the extracted Enum.enumerate; non-trivial = >= 2 inputs and >= 2 survivors"
	c.Assumptions = append(c.Assumptions, "W3: analysed length >= 1 for a field instance with a token (single-hit encoding uses normBits != 0 as its marker)",
		"the list of visitable doc-value fields of a merged segment is compared only on fields that still have a term (DESIGN.md 9)")
	parts := []int{pDicts, pDVFields, pDV}
	if bad := enumeratorCorrespondence(c, c.n(400, 20000)); bad != "" {
		c.Violation("C06 "+bad, false)
		return
	}
	if !mergeRounds(c, c.n(110, 2500), false, parts, false, "C06", nil) {
		return
	}
	if !boundaryMerges(c, parts, "C06", 0) {
		return
	}
	if !wideMerges(c, parts, "C06") {
		return
	}
	emptyInputMerges(c, parts, "C06")
}

// boundaryMerges: cardinalities cross a multiple of 1024 between inputs and output.
func boundaryMerges(c *ctx, parts []int, prop string, limit int) bool {
	type bm struct {
		nd    int
		cards []int
		drop  int
		mode  uint32
	}
	cases := []bm{{1100, []int{1024, 1025, 1026, 3}, 1, 1026}, {1100, []int{1023, 1024, 1025}, 2, 1025}, {1100, []int{3, 1030, 1025}, 1, 1026}} // the last term of a batch is the empty term
	if !c.Quick {
		cases = append(cases, bm{2100, []int{2048, 2049, 2050, 1024, 1025}, 1, 1026}, bm{1500, []int{1024, 1100}, 80, 1026}, bm{1100, []int{1025, 1024}, 1, 1024})
	}
	if limit > 0 && len(cases) > limit {
		cases = cases[:limit]
	}
	for _, g := range cases {
		b := zh.GenBoundaryBatch(c.R, g.nd, g.cards, c.R.Bool())
		e1, err := newBuilt(c, b, g.mode, c.R.Bool())
		must(err)
		b2 := zh.GenBatch(c.R, zh.RandOpts(c.R, 3, "q"))
		e2, err := newBuilt(c, b2, g.mode, false)
		must(err)
		// drop `drop` documents that carry term 0 (the first cardinality)
		var drops []uint64
		for d := 0; d < len(b) && len(drops) < g.drop; d++ {
			for _, f := range b[d].Fields {
				if f.Name == "tag" && len(f.Toks) > 0 && f.Toks[0].Term == "t0" {
					drops = append(drops, uint64(d))
					break
				}
			}
		}
		mc := &mergeCase{ins: []*segEnt{e2, e1}, drops: [][]uint64{nil, drops}, nilBM: []bool{true, false}, mode: g.mode}
		c.Case(fmt.Sprintf("boundary-merge-%v-%d-%d", g.cards, g.drop, g.mode), true)
		c.Count("boundary_merges")
		bad, r, mspec := mergeVerdict(c, mc, parts, false)
		if bad == "" && r.seg != nil {
			// merged once more on its own (identical field lists: the per-document byte-copy path)
			m1 := &segEnt{seg: r.seg, spec: mspec, n: mspec.L[pNDocs].N, prov: "merged", depth: 1}
			var d2 []uint64
			for d := uint64(0); d < m1.n; d += 97 {
				d2 = append(d2, d)
			}
			mc2 := &mergeCase{ins: []*segEnt{m1}, drops: [][]uint64{d2}, nilBM: []bool{false}, mode: g.mode}
			bad2, r2, _ := mergeVerdict(c, mc2, parts, false)
			if r2.seg != nil {
				r2.seg.Close()
			}
			if bad2 != "" {
				bad = "the output merged once more on its own (every 97th document deleted): " + bad2
			}
			c.Count("boundary_re_merges")
		}
		if r.seg != nil {
			r.seg.Close()
		}
		e1.close()
		e2.close()
		if bad != "" {
			c.Violation(fmt.Sprintf("%s boundary merge: %d docs with term cardinalities %v, %d of term t0's documents deleted, chunk mode %d\n%s", prop, g.nd, g.cards, len(drops), g.mode, clip(bad)), false)
			return false
		}
	}
	return true
}

// wideBatch: two documents over nf distinct field names (the field count and the field ids cross the
// one-byte varint); with locs every token carries a location of its own field.
func wideBatch(nf int, id string, locs bool) zh.Batch {
	var b zh.Batch
	for d := 0; d < 2; d++ {
		doc := zh.Doc{Fields: []zh.Field{zh.IDField(fmt.Sprintf("%s%03d", id, d))}}
		for f := 0; f < nf-1; f++ {
			if (f+d)%3 == 0 && d == 1 {
				continue
			}
			tok := zh.Tok{Term: fmt.Sprintf("t%d", f%4), Freq: 1}
			if locs {
				tok.Locs = []zh.Loc{{Pos: uint64(1 + f%5), Start: uint64(f), End: uint64(f + 2)}}
			}
			doc.Fields = append(doc.Fields, zh.Field{Name: fmt.Sprintf("n%03d", f), Len: 1, DV: f%7 == 0, Stored: f%5 == 0, Typ: 't', Val: []byte{byte('a' + f%26)},
				Toks: []zh.Tok{tok}})
		}
		b = append(b, doc)
	}
	return b
}

// wideMerges: merges whose output has 127..300 fields, the inputs having different field lists (the
// re-encoding path) or the same (the byte-copy path); every token carries a location.
func wideMerges(c *ctx, parts []int, prop string) bool {
	for _, nf := range []int{127, 128, 129, 130, 300} {
		for _, same := range []bool{false, true} {
			e1, err := newBuilt(c, wideBatch(nf, "w", true), 1026, c.R.Bool())
			must(err)
			b2 := wideBatch(nf, "v", true)
			if !same {
				b2 = wideBatch(nf-3, "v", true)
				b2[0].Fields = append(b2[0].Fields, zh.Field{Name: "zlast", Len: 1, Typ: 't', Toks: []zh.Tok{{Term: "z", Freq: 1, Locs: []zh.Loc{{Pos: 1, Start: 0, End: 1}}}}})
			}
			e2, err := newBuilt(c, b2, 1026, c.R.Bool())
			must(err)
			mc := &mergeCase{ins: []*segEnt{e1, e2}, drops: [][]uint64{{1}, nil}, nilBM: []bool{false, true}, mode: 1026}
			c.Case(fmt.Sprintf("wide-merge-%d-%v", nf, same), true)
			c.Count("merges_with_127_or_more_fields")
			bad, r, _ := mergeVerdict(c, mc, parts, false)
			if r != nil && r.seg != nil {
				r.seg.Close()
			}
			e1.close()
			e2.close()
			if bad != "" {
				c.Violation(fmt.Sprintf("%s merge of two segments with %d field names (same field lists: %v), every token with a location, one document deleted\n%s", prop, nf, same, clip(bad)), false)
				return false
			}
		}
	}
	return true
}

// emptyInputMerges: an input without documents (what a merge in which nothing survived leaves) that
// still lists a field the other inputs lack - a name sorting before or after theirs - merged, in
// every position, with two inputs of identical field lists whose tokens carry locations.
func emptyInputMerges(c *ctx, parts []int, prop string) bool {
	mkDoc := func(id string, fields ...string) zh.Doc {
		d := zh.Doc{Fields: []zh.Field{zh.IDField(id)}}
		for i, f := range fields {
			d.Fields = append(d.Fields, zh.Field{Name: f, Len: 2, Toks: []zh.Tok{
				{Term: "w" + f, Freq: 1, Locs: []zh.Loc{{Pos: uint64(1 + i), Start: 0, End: 2}}},
				{Term: "all", Freq: 2, Locs: []zh.Loc{{Pos: 3, Start: 3, End: 5}, {Pos: 4, Start: 6, End: 8}}}}})
		}
		return d
	}
	for _, extra := range []string{"Aaa", "aaa", "zzz"} {
		src, err := newBuilt(c, zh.Batch{mkDoc("e0", extra, "body", "tag")}, 1026, false)
		must(err)
		mcE := &mergeCase{ins: []*segEnt{src}, drops: [][]uint64{{0}}, nilBM: []bool{false}, mode: 1026}
		specE, _ := specMerge(c, mcE)
		rE := runMerge(c, mcE)
		if rE.err != nil || rE.seg == nil {
			c.Violation(fmt.Sprintf("%s merge in which nothing survives failed: %v", prop, rE.err), false)
			return false
		}
		empty := &segEnt{seg: rE.seg, spec: specE, n: 0, prov: "merged", depth: 1}
		a, err := newBuilt(c, zh.Batch{mkDoc("a0", "body", "tag"), mkDoc("a1", "body", "tag")}, 1026, true)
		must(err)
		b, err := newBuilt(c, zh.Batch{mkDoc("b0", "body", "tag")}, 1026, false)
		must(err)
		for pos := 0; pos < 3; pos++ {
			ins := []*segEnt{a, b}
			ins = append(ins[:pos], append([]*segEnt{empty}, ins[pos:]...)...)
			mc := &mergeCase{ins: ins, drops: [][]uint64{nil, nil, nil}, nilBM: []bool{true, true, true}, mode: 1026}
			c.Case(fmt.Sprintf("empty-input-%s-%d", extra, pos), true)
			c.Count("merges_with_an_empty_input_listing_an_extra_field")
			bad, r, _ := mergeVerdict(c, mc, parts, false)
			if r != nil && r.seg != nil {
				r.seg.Close()
			}
			if bad != "" {
				c.Violation(fmt.Sprintf("%s merge of two segments with identical field lists (tokens with locations) and, at position %d, an input without documents that lists the additional field %q\n%s", prop, pos, extra, clip(bad)), false)
				return false
			}
		}
		rE.seg.Close()
		src.close()
		a.close()
		b.close()
	}
	return true
}
