package main

import (
	"fmt"

	zap "github.com/blevesearch/zapx/v16"

	"zverif/sx"
	"zverif/zh"
)

// parseAgainst has the extracted, verified v16 parser decode the bytes the implementation wrote and
// compares the listed parts with the expected content.
func parseAgainst(c *ctx, sb *zap.SegmentBase, spec sx.V, parts []int) string {
	data, err := zh.FileBytes(sb)
	if err != nil {
		return "WriteTo failed: " + err.Error()
	}
	return parseBytesAgainst(c, data, spec, parts)
}

// normalizeMergedSx applies Content.NormalizeMerged to a wire content (doc-value fields without any
// entry are not listed).
func normalizeMergedSx(v sx.V) sx.V {
	if v.K != sx.KList || len(v.L) != len(zh.ContentParts) {
		return v
	}
	var dv, names []sx.V
	for _, e := range v.L[pDV].L {
		if len(e.L[1].L) > 0 {
			dv = append(dv, e)
			names = append(names, e.L[0])
		}
	}
	out := append([]sx.V{}, v.L...)
	out[pDV] = sx.List(dv)
	out[pDVFields] = sx.List(names)
	return sx.List(out)
}

func parseMergedAgainst(c *ctx, data []byte, spec sx.V, parts []int) string {
	return parseBytesWith(c, data, spec, parts, true)
}

func parseBytesAgainst(c *ctx, data []byte, spec sx.V, parts []int) string {
	return parseBytesWith(c, data, spec, parts, false)
}

func parseBytesWith(c *ctx, data []byte, spec sx.V, parts []int, merged bool) string {
	a := ask(c, sx.L(sx.N(zh.ReqParse), sx.B(data), sx.N(uint64(zap.LegacyChunkMode))))
	if code, bad := sx.IsErr(a); bad {
		return fmt.Sprintf("parse_v16 rejected the file (error %d)", code)
	}
	c.Count("files_parsed_by_model")
	if merged {
		a = normalizeMergedSx(a)
	}
	if d := partsDiffer(a, spec, parts); len(d) > 0 {
		return "parsed content differs in " + fmt.Sprint(d) + "\n" + describeDiff(a, spec, parts)
	}
	return ""
}
