package main

import (
	"fmt"

	zap "github.com/blevesearch/zapx/v16"

	"zverif/sx"
	"zverif/zh"
)

// parseAgainst has the extracted, verified v16 parser decode the bytes the implementation wrote and
// compares the listed parts with the expected content.
func parseAgainst(c *ctx, sb *zap.SegmentBase, spec sx.V, parts []int) string {
	data, err := zh.FileBytes(sb)
	if err != nil {
		return "WriteTo failed: " + err.Error()
	}
	return parseBytesAgainst(c, data, spec, parts)
}

func parseBytesAgainst(c *ctx, data []byte, spec sx.V, parts []int) string {
	a := ask(c, sx.L(sx.N(zh.ReqParse), sx.B(data), sx.N(uint64(zap.LegacyChunkMode))))
	if code, bad := sx.IsErr(a); bad {
		return fmt.Sprintf("parse_v16 rejected the file (error %d)", code)
	}
	c.Count("files_parsed_by_model")
	if d := partsDiffer(a, spec, parts); len(d) > 0 {
		return "parsed content differs in " + fmt.Sprint(d) + "\n" + describeDiff(a, spec, parts)
	}
	return ""
}
