// zprobe: small one-off confirmations of defects against the real code (used when deciding fixes).
package main

import (
	"fmt"
	"runtime/debug"

	zap "github.com/blevesearch/zapx/v16"

	"zverif/zh"
)

func main() {
	debug.SetGCPercent(-1)
	r := zh.NewRng(7)
	b := zh.GenBatch(r, zh.RandOpts(r, 3, "p"))
	sb, _, err := zh.Build(b, 1026)
	if err != nil {
		panic(err)
	}
	fmt.Println("pool hands out one object twice before any visit:", zap.VerifPoolProbe())
	sb.VisitStoredFields(0, func(string, byte, []byte, []uint64) bool { return false })
	fmt.Println("pool hands out one object twice after an early-stopped visit:", zap.VerifPoolProbe())
}
