// zprobe: small one-off confirmations of behaviours against the real code (used when deciding fixes).
package main

import (
	"fmt"
	"os"

	"github.com/RoaringBitmap/roaring/v2"
	segment "github.com/blevesearch/scorch_segment_api/v2"

	"zverif/zh"
)

func main() {
	b := zh.Batch{
		{Fields: []zh.Field{zh.IDField("a"), {Name: "body", Len: 1, Toks: []zh.Tok{{Term: "x", Freq: 1}}}}},
		{Fields: []zh.Field{zh.IDField("s"), {Name: "syn2", Typ: 's', Syn: []zh.SynDef{{Term: "b", Syns: []string{"big"}}}}}},
	}
	sb, _, err := zh.Build(b, 1026)
	if err != nil {
		panic(err)
	}
	dr := roaring.New()
	dr.Add(1)
	maps, _, path, err := zh.Merge([]segment.Segment{sb}, []*roaring.Bitmap{dr}, 1026)
	fmt.Println("merge:", maps, err)
	s, err := zh.Plugin.Open(path)
	if err != nil {
		panic(err)
	}
	th, err := s.(segment.ThesaurusSegment).Thesaurus("syn2")
	fmt.Printf("Thesaurus(syn2) = %v, err=%v\n", th, err)
	d, err := zh.DumpThesaurus(s.(segment.ThesaurusSegment), "syn2", nil)
	fmt.Println(d, err)
	data, _ := os.ReadFile(path)
	fmt.Printf("%x\n", data)
}
