package zh

import "time"

// ShrinkBatch greedily removes documents, fields, tokens and locations while `fails` stays true.
// (Removing the last document with a given content never leaves the input domain: `_id` fields are kept.)
func ShrinkBatch(b Batch, fails func(Batch) bool) Batch {
	cp := func(b Batch) Batch {
		nb := make(Batch, len(b))
		for i, d := range b {
			nd := Doc{}
			for _, f := range d.Comps {
				nf := f
				nf.Toks = append([]Tok(nil), f.Toks...)
				nd.Comps = append(nd.Comps, nf)
			}
			for _, f := range d.Fields {
				nf := f
				nf.Toks = append([]Tok(nil), f.Toks...)
				nd.Fields = append(nd.Fields, nf)
			}
			nb[i] = nd
		}
		return nb
	}
	budget := 400
	deadline := time.Now().Add(25 * time.Second)
	try := func(nb Batch) bool {
		if budget <= 0 || time.Now().After(deadline) {
			budget = 0
			return false
		}
		if !nb.InDomain() {
			return false // never shrink out of the input domain
		}
		budget--
		return fails(nb)
	}
	// delta-debugging passes over documents: remove blocks of n/2, n/4, ... documents
	for size := len(b) / 2; size >= 2; size /= 2 {
		for start := 0; start+size <= len(b); {
			nb := append(cp(b[:start]), cp(b[start+size:])...)
			if try(nb) {
				b = nb
			} else {
				start += size
			}
		}
	}
	changed := true
	for changed && budget > 0 {
		changed = false
		// documents (from the end, so that numbering of the rest is stable)
		for i := len(b) - 1; i >= 0; i-- {
			nb := append(cp(b[:i]), cp(b[i+1:])...)
			if try(nb) {
				b = nb
				changed = true
			}
		}
		// fields (never the _id field)
		for i := range b {
			for j := len(b[i].Fields) - 1; j >= 0; j-- {
				if b[i].Fields[j].Name == "_id" {
					continue
				}
				nb := cp(b)
				nb[i].Fields = append(nb[i].Fields[:j], nb[i].Fields[j+1:]...)
				if try(nb) {
					b = nb
					changed = true
				}
			}
			for j := len(b[i].Comps) - 1; j >= 0; j-- {
				nb := cp(b)
				nb[i].Comps = append(nb[i].Comps[:j], nb[i].Comps[j+1:]...)
				if try(nb) {
					b = nb
					changed = true
				}
			}
		}
		// tokens
		for i := range b {
			for j := range b[i].Fields {
				if b[i].Fields[j].Name == "_id" {
					continue
				}
				for k := len(b[i].Fields[j].Toks) - 1; k >= 0; k-- {
					nb := cp(b)
					t := nb[i].Fields[j].Toks
					nb[i].Fields[j].Toks = append(t[:k], t[k+1:]...)
					if try(nb) {
						b = nb
						changed = true
					}
				}
			}
		}
	}
	return b
}
