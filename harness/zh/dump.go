package zh

import (
	"fmt"
	"sort"

	"github.com/RoaringBitmap/roaring/v2"
	segment "github.com/blevesearch/scorch_segment_api/v2"
	zap "github.com/blevesearch/zapx/v16"
)

func cpU64(a []uint64) []uint64 {
	if len(a) == 0 {
		return nil
	}
	return append([]uint64(nil), a...)
}

// safely runs f, converting a panic inside an API call into an error
func safely(what string, f func() error) (err error) {
	defer func() {
		if r := recover(); r != nil {
			err = fmt.Errorf("PANIC in %s: %v", what, r)
		}
	}()
	return f()
}

// ReadPostings enumerates one postings list completely with Next.
func ReadPostings(d segment.TermDictionary, term []byte, except *roaring.Bitmap) ([]Hit, uint64, error) {
	pl, err := d.PostingsList(term, except, nil)
	if err != nil {
		return nil, 0, err
	}
	pi := pl.Iterator(true, true, true, nil)
	var hits []Hit
	for {
		p, err := pi.Next()
		if err != nil {
			return nil, 0, err
		}
		if p == nil {
			break
		}
		h := Hit{Doc: p.Number(), Freq: p.Frequency(), Norm: p.(*zap.Posting).NormUint64()}
		for _, l := range p.Locations() {
			h.Locs = append(h.Locs, Loc{l.Field(), l.Pos(), l.Start(), l.End(), cpU64(l.ArrayPositions())})
		}
		hits = append(hits, h)
	}
	return hits, pl.Count(), nil
}

// DumpNoThes makes Dump leave the thesauri out (reading a closed in-memory segment: its caches are gone).
var DumpNoThes bool

// Recycled holds the postings list and iterator a reader hands back as prealloc arguments.
type Recycled struct {
	PL segment.PostingsList
	It segment.PostingsIterator
}

// ReadPostingsReuse is ReadPostings with the caller's recycled objects passed as prealloc (and
// updated with what the calls returned, whatever that is - including the results of a miss).
func ReadPostingsReuse(d segment.TermDictionary, term []byte, except *roaring.Bitmap, rc *Recycled) ([]Hit, uint64, error) {
	pl, err := d.PostingsList(term, except, rc.PL)
	if err != nil {
		return nil, 0, err
	}
	rc.PL = pl
	pi := pl.Iterator(true, true, true, rc.It)
	rc.It = pi
	var hits []Hit
	for {
		p, err := pi.Next()
		if err != nil {
			return nil, 0, err
		}
		if p == nil {
			break
		}
		h := Hit{Doc: p.Number(), Freq: p.Frequency(), Norm: p.(*zap.Posting).NormUint64()}
		for _, l := range p.Locations() {
			h.Locs = append(h.Locs, Loc{l.Field(), l.Pos(), l.Start(), l.End(), cpU64(l.ArrayPositions())})
		}
		hits = append(hits, h)
	}
	return hits, pl.Count(), nil
}

// FlagReads re-reads postings lists with every combination of the detail flags and requires the
// requested details to equal those of the full read (frequency / norm without locations is what a
// scorer asks for).
func FlagReads(s segment.Segment, c *Content) (bad string) {
	defer func() {
		if r := recover(); r != nil {
			bad = fmt.Sprintf("PANIC in flag reads: %v", r)
		}
	}()
	for _, fd := range c.Dicts {
		d, err := s.Dictionary(fd.Field)
		if err != nil {
			return err.Error()
		}
		// the longest list of the field
		var th *TermHits
		for i := range fd.Terms {
			if th == nil || len(fd.Terms[i].Hits) > len(th.Hits) {
				th = &fd.Terms[i]
			}
		}
		if th == nil || len(th.Hits) < 2 {
			continue
		}
		for fl := 0; fl < 8; fl++ {
			wf, wn, wl := fl&1 != 0, fl&2 != 0, fl&4 != 0
			pl, err := d.PostingsList([]byte(th.Term), nil, nil)
			if err != nil {
				return err.Error()
			}
			it := pl.Iterator(wf, wn, wl, nil)
			for i, h := range th.Hits {
				p, err := it.Next()
				if err != nil || p == nil || p.Number() != h.Doc {
					return fmt.Sprintf("%s/%q with flags (freq=%v norm=%v locs=%v): hit %d is %v (err %v), want doc %d", fd.Field, th.Term, wf, wn, wl, i, p, err, h.Doc)
				}
				if wf && p.Frequency() != h.Freq {
					return fmt.Sprintf("%s/%q with flags (freq=%v norm=%v locs=%v): doc %d has frequency %d, the full read says %d", fd.Field, th.Term, wf, wn, wl, h.Doc, p.Frequency(), h.Freq)
				}
				if wn && p.(*zap.Posting).NormUint64() != h.Norm {
					return fmt.Sprintf("%s/%q with flags (freq=%v norm=%v locs=%v): doc %d has norm %d, the full read says %d", fd.Field, th.Term, wf, wn, wl, h.Doc, p.(*zap.Posting).NormUint64(), h.Norm)
				}
				if wl && len(p.Locations()) != len(h.Locs) {
					return fmt.Sprintf("%s/%q with flags (freq=%v norm=%v locs=%v): doc %d has %d locations, the full read says %d", fd.Field, th.Term, wf, wn, wl, h.Doc, len(p.Locations()), len(h.Locs))
				}
			}
		}
	}
	return ""
}

// InterleavedLookups reads like a conjunction query does: an iterator obtained for an absent term is
// recycled (prealloc) for a present term, one hit is taken, an absent term of another field is
// looked up (must be empty), then the first iterator is drained (must yield the rest of its hits).
func InterleavedLookups(s segment.Segment, c *Content) (bad string) {
	defer func() {
		if r := recover(); r != nil {
			bad = fmt.Sprintf("PANIC in interleaved lookups: %v", r)
		}
	}()
	for _, fd := range c.Dicts {
		d, err := s.Dictionary(fd.Field)
		if err != nil {
			return err.Error()
		}
		for _, th := range fd.Terms {
			if len(th.Hits) < 2 {
				continue
			}
			absent := []byte("\xf0no-such-term")
			plMiss, err := d.PostingsList(absent, nil, nil)
			if err != nil {
				return err.Error()
			}
			itMiss := plMiss.Iterator(true, true, true, nil)
			if p, _ := itMiss.Next(); p != nil {
				return fmt.Sprintf("absent term of %s yields a posting", fd.Field)
			}
			pl, err := d.PostingsList([]byte(th.Term), nil, plMiss)
			if err != nil {
				return err.Error()
			}
			it := pl.Iterator(true, true, true, itMiss)
			p, err := it.Next()
			if err != nil || p == nil || p.Number() != th.Hits[0].Doc {
				return fmt.Sprintf("%s/%q through recycled objects: first hit %v (err %v), want doc %d", fd.Field, th.Term, p, err, th.Hits[0].Doc)
			}
			// meanwhile: another absent lookup, in every field
			for _, fd2 := range c.Dicts {
				d2, err := s.Dictionary(fd2.Field)
				if err != nil {
					return err.Error()
				}
				pl2, err := d2.PostingsList(absent, nil, nil)
				if err != nil {
					return err.Error()
				}
				if q, _ := pl2.Iterator(true, true, true, nil).Next(); q != nil || pl2.Count() != 0 {
					return fmt.Sprintf("while an iterator over %s/%q (recycled from a lookup that missed) is half read, a term that is not in field %s yields doc %d", fd.Field, th.Term, fd2.Field, q.Number())
				}
			}
			for i := 1; i < len(th.Hits); i++ {
				p, err := it.Next()
				if err != nil || p == nil || p.Number() != th.Hits[i].Doc || p.Frequency() != th.Hits[i].Freq {
					return fmt.Sprintf("%s/%q through recycled objects, interleaved with lookups of absent terms: hit %d is %v (err %v), want doc %d freq %d", fd.Field, th.Term, i, p, err, th.Hits[i].Doc, th.Hits[i].Freq)
				}
			}
			if p, _ := it.Next(); p != nil {
				return fmt.Sprintf("%s/%q through recycled objects: an extra hit doc %d after the last one", fd.Field, th.Term, p.Number())
			}
			break // one term per field
		}
	}
	return ""
}

// CheckDictCounts makes Dump also compare DictEntry.Count with the postings count (C08's concern).
var CheckDictCounts = false

// Dump observes the complete query surface of a segment through its public API and
// canonicalises it (sets sorted; nothing more than the properties fix is kept ordered).
func Dump(s segment.Segment) (c *Content, err error) {
	c = &Content{}
	err = safely("Dump", func() error {
		c.NDocs = s.Count()
		c.Fields = CanonFields(s.Fields())
		for _, f := range c.Fields {
			var d segment.TermDictionary
			if e := safely("Dictionary("+f+")", func() (e error) { d, e = s.Dictionary(f); return }); e != nil {
				return e
			}
			it := d.AutomatonIterator(nil, nil, nil)
			fd := FieldDict{Field: f}
			for {
				e, err := it.Next()
				if err != nil {
					return err
				}
				if e == nil {
					break
				}
				hits, cnt, err := ReadPostings(d, []byte(e.Term), nil)
				if err != nil {
					return err
				}
				if uint64(len(hits)) != cnt {
					return fmt.Errorf("Count()=%d but %d hits for %s/%q", cnt, len(hits), f, e.Term)
				}
				if CheckDictCounts && e.Count != cnt {
					return fmt.Errorf("DictEntry.Count=%d but postings Count()=%d for %s/%q", e.Count, cnt, f, e.Term)
				}
				fd.Terms = append(fd.Terms, TermHits{Term: e.Term, Hits: hits})
			}
			if len(fd.Terms) > 0 {
				c.Dicts = append(c.Dicts, fd)
			}
		}
		for i := uint64(0); i < c.NDocs; i++ {
			var sv []SVal
			err := s.VisitStoredFields(i, func(field string, typ byte, value []byte, pos []uint64) bool {
				sv = append(sv, SVal{field, typ, append([]byte(nil), value...), cpU64(pos)})
				return true
			})
			if err != nil {
				return err
			}
			c.Stored = append(c.Stored, CanonStored(sv))
		}
		if dvv, ok := s.(segment.DocValueVisitable); ok {
			dvfs, err := dvv.VisitableDocValueFields()
			if err != nil {
				return err
			}
			c.DVFields = CanonFields(dvfs)
			per := map[string]map[uint64][]string{}
			for _, f := range dvfs {
				per[f] = map[uint64][]string{}
			}
			var st segment.DocVisitState
			for i := uint64(0); i < c.NDocs; i++ {
				st, err = dvv.VisitDocValues(i, dvfs, func(field string, term []byte) {
					per[field][i] = append(per[field][i], string(term))
				}, st)
				if err != nil {
					return err
				}
			}
			for _, f := range c.DVFields {
				fdv := FieldDV{Field: f}
				for i := uint64(0); i < c.NDocs; i++ {
					if ts := per[f][i]; len(ts) > 0 {
						sort.Strings(ts)
						fdv.Docs = append(fdv.Docs, DocTerms{i, ts})
					}
				}
				c.DV = append(c.DV, fdv)
			}
		}
		if ts, ok := s.(segment.ThesaurusSegment); ok && !DumpNoThes {
			for _, f := range c.Fields {
				th, err := DumpThesaurus(ts, f, nil)
				if err != nil {
					return err
				}
				if len(th.Terms) > 0 {
					c.Thes = append(c.Thes, th)
				}
			}
		}
		return nil
	})
	return c, err
}

// CanonStored keeps "_id" where it was delivered and orders the remaining values by field name,
// stably (the property fixes the order of values within one field only).
func CanonStored(sv []SVal) []SVal {
	if len(sv) <= 1 {
		return sv
	}
	rest := sv[1:]
	sort.SliceStable(rest, func(a, b int) bool { return rest[a].Field < rest[b].Field })
	return sv
}

// DumpThesaurus lists a thesaurus: terms ascending as iterated, pairs sorted.
func DumpThesaurus(ts segment.ThesaurusSegment, name string, except *roaring.Bitmap) (Thes, error) {
	rv := Thes{Name: name}
	th, err := ts.Thesaurus(name)
	if err != nil {
		return rv, err
	}
	it := th.AutomatonIterator(nil, nil, nil)
	for {
		e, err := it.Next()
		if err != nil {
			return rv, err
		}
		if e == nil {
			break
		}
		tt := ThesTerm{Term: e.Term}
		sl, err := th.SynonymsList([]byte(e.Term), except, nil)
		if err != nil {
			return rv, err
		}
		si := sl.Iterator(nil)
		for {
			s, err := si.Next()
			if err != nil {
				return rv, err
			}
			if s == nil {
				break
			}
			tt.Pairs = append(tt.Pairs, SynPair{s.Term(), uint64(s.Number())})
		}
		sort.Slice(tt.Pairs, func(a, b int) bool {
			if tt.Pairs[a].Syn != tt.Pairs[b].Syn {
				return tt.Pairs[a].Syn < tt.Pairs[b].Syn
			}
			return tt.Pairs[a].Doc < tt.Pairs[b].Doc
		})
		rv.Terms = append(rv.Terms, tt)
	}
	return rv, nil
}

// IteratorAcrossLists: a searcher keeps the postings lists it obtained (one per term) and recycles ONE
// iterator object over them: list A (no exclusions) is iterated, the iterator is then recycled for
// list B obtained with an exclusion bitmap, and afterwards list A is read again - its Count and its
// hits must be what they were.
func IteratorAcrossLists(s segment.Segment, c *Content) (bad string) {
	defer func() {
		if r := recover(); r != nil {
			bad = fmt.Sprintf("PANIC while one iterator is recycled across kept postings lists: %v", r)
		}
	}()
	for _, fd := range c.Dicts {
		if len(fd.Terms) < 2 {
			continue
		}
		d, err := s.Dictionary(fd.Field)
		if err != nil {
			return err.Error()
		}
		ta, tb := fd.Terms[0], fd.Terms[len(fd.Terms)-1]
		drain := func(pl segment.PostingsList, it segment.PostingsIterator) ([]uint64, segment.PostingsIterator, error) {
			it = pl.Iterator(true, true, false, it)
			var docs []uint64
			for {
				p, err := it.Next()
				if err != nil {
					return nil, it, err
				}
				if p == nil {
					return docs, it, nil
				}
				docs = append(docs, p.Number())
			}
		}
		la, err := d.PostingsList([]byte(ta.Term), nil, nil)
		if err != nil {
			return err.Error()
		}
		docsA, it, err := drain(la, nil)
		if err != nil {
			return err.Error()
		}
		except := roaring.New()
		if len(tb.Hits) > 0 {
			except.Add(uint32(tb.Hits[0].Doc))
		}
		lb, err := d.PostingsList([]byte(tb.Term), except, nil)
		if err != nil {
			return err.Error()
		}
		docsB, it, err := drain(lb, it)
		if err != nil {
			return err.Error()
		}
		if len(docsB) != len(tb.Hits)-1 && len(tb.Hits) > 0 {
			return fmt.Sprintf("%s/%q with its first document excluded, through an iterator recycled from %q: %d hits, want %d", fd.Field, tb.Term, ta.Term, len(docsB), len(tb.Hits)-1)
		}
		docsA2, _, err := drain(la, nil)
		if err != nil {
			return err.Error()
		}
		if fmt.Sprint(docsA2) != fmt.Sprint(docsA) || la.Count() != uint64(len(ta.Hits)) || len(docsA) != len(ta.Hits) {
			return fmt.Sprintf("the postings list of %s/%q (kept by the caller, no exclusions) yields documents %v (Count %d) after its iterator was recycled for %q with an exclusion bitmap; before that it yielded %v; the term has %d hits", fd.Field, ta.Term, docsA2, la.Count(), tb.Term, docsA, len(ta.Hits))
		}
	}
	return ""
}
