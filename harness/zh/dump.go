package zh

import (
	"fmt"
	"sort"

	"github.com/RoaringBitmap/roaring/v2"
	segment "github.com/blevesearch/scorch_segment_api/v2"
	zap "github.com/blevesearch/zapx/v16"
)

func cpU64(a []uint64) []uint64 {
	if len(a) == 0 {
		return nil
	}
	return append([]uint64(nil), a...)
}

// safely runs f, converting a panic inside an API call into an error
func safely(what string, f func() error) (err error) {
	defer func() {
		if r := recover(); r != nil {
			err = fmt.Errorf("PANIC in %s: %v", what, r)
		}
	}()
	return f()
}

// ReadPostings enumerates one postings list completely with Next.
func ReadPostings(d segment.TermDictionary, term []byte, except *roaring.Bitmap) ([]Hit, uint64, error) {
	pl, err := d.PostingsList(term, except, nil)
	if err != nil {
		return nil, 0, err
	}
	pi := pl.Iterator(true, true, true, nil)
	var hits []Hit
	for {
		p, err := pi.Next()
		if err != nil {
			return nil, 0, err
		}
		if p == nil {
			break
		}
		h := Hit{Doc: p.Number(), Freq: p.Frequency(), Norm: p.(*zap.Posting).NormUint64()}
		for _, l := range p.Locations() {
			h.Locs = append(h.Locs, Loc{l.Field(), l.Pos(), l.Start(), l.End(), cpU64(l.ArrayPositions())})
		}
		hits = append(hits, h)
	}
	return hits, pl.Count(), nil
}

// Recycled holds the postings list and iterator a reader hands back as prealloc arguments.
type Recycled struct {
	PL segment.PostingsList
	It segment.PostingsIterator
}

// ReadPostingsReuse is ReadPostings with the caller's recycled objects passed as prealloc (and
// updated with what the calls returned, whatever that is - including the results of a miss).
func ReadPostingsReuse(d segment.TermDictionary, term []byte, except *roaring.Bitmap, rc *Recycled) ([]Hit, uint64, error) {
	pl, err := d.PostingsList(term, except, rc.PL)
	if err != nil {
		return nil, 0, err
	}
	rc.PL = pl
	pi := pl.Iterator(true, true, true, rc.It)
	rc.It = pi
	var hits []Hit
	for {
		p, err := pi.Next()
		if err != nil {
			return nil, 0, err
		}
		if p == nil {
			break
		}
		h := Hit{Doc: p.Number(), Freq: p.Frequency(), Norm: p.(*zap.Posting).NormUint64()}
		for _, l := range p.Locations() {
			h.Locs = append(h.Locs, Loc{l.Field(), l.Pos(), l.Start(), l.End(), cpU64(l.ArrayPositions())})
		}
		hits = append(hits, h)
	}
	return hits, pl.Count(), nil
}

// CheckDictCounts makes Dump also compare DictEntry.Count with the postings count (C08's concern).
var CheckDictCounts = false

// Dump observes the complete query surface of a segment through its public API and
// canonicalises it (sets sorted; nothing more than the properties fix is kept ordered).
func Dump(s segment.Segment) (c *Content, err error) {
	c = &Content{}
	err = safely("Dump", func() error {
		c.NDocs = s.Count()
		c.Fields = CanonFields(s.Fields())
		for _, f := range c.Fields {
			var d segment.TermDictionary
			if e := safely("Dictionary("+f+")", func() (e error) { d, e = s.Dictionary(f); return }); e != nil {
				return e
			}
			it := d.AutomatonIterator(nil, nil, nil)
			fd := FieldDict{Field: f}
			for {
				e, err := it.Next()
				if err != nil {
					return err
				}
				if e == nil {
					break
				}
				hits, cnt, err := ReadPostings(d, []byte(e.Term), nil)
				if err != nil {
					return err
				}
				if uint64(len(hits)) != cnt {
					return fmt.Errorf("Count()=%d but %d hits for %s/%q", cnt, len(hits), f, e.Term)
				}
				if CheckDictCounts && e.Count != cnt {
					return fmt.Errorf("DictEntry.Count=%d but postings Count()=%d for %s/%q", e.Count, cnt, f, e.Term)
				}
				fd.Terms = append(fd.Terms, TermHits{Term: e.Term, Hits: hits})
			}
			if len(fd.Terms) > 0 {
				c.Dicts = append(c.Dicts, fd)
			}
		}
		for i := uint64(0); i < c.NDocs; i++ {
			var sv []SVal
			err := s.VisitStoredFields(i, func(field string, typ byte, value []byte, pos []uint64) bool {
				sv = append(sv, SVal{field, typ, append([]byte(nil), value...), cpU64(pos)})
				return true
			})
			if err != nil {
				return err
			}
			c.Stored = append(c.Stored, CanonStored(sv))
		}
		if dvv, ok := s.(segment.DocValueVisitable); ok {
			dvfs, err := dvv.VisitableDocValueFields()
			if err != nil {
				return err
			}
			c.DVFields = CanonFields(dvfs)
			per := map[string]map[uint64][]string{}
			for _, f := range dvfs {
				per[f] = map[uint64][]string{}
			}
			var st segment.DocVisitState
			for i := uint64(0); i < c.NDocs; i++ {
				st, err = dvv.VisitDocValues(i, dvfs, func(field string, term []byte) {
					per[field][i] = append(per[field][i], string(term))
				}, st)
				if err != nil {
					return err
				}
			}
			for _, f := range c.DVFields {
				fdv := FieldDV{Field: f}
				for i := uint64(0); i < c.NDocs; i++ {
					if ts := per[f][i]; len(ts) > 0 {
						sort.Strings(ts)
						fdv.Docs = append(fdv.Docs, DocTerms{i, ts})
					}
				}
				c.DV = append(c.DV, fdv)
			}
		}
		if ts, ok := s.(segment.ThesaurusSegment); ok {
			for _, f := range c.Fields {
				th, err := DumpThesaurus(ts, f, nil)
				if err != nil {
					return err
				}
				if len(th.Terms) > 0 {
					c.Thes = append(c.Thes, th)
				}
			}
		}
		return nil
	})
	return c, err
}

// CanonStored keeps "_id" where it was delivered and orders the remaining values by field name,
// stably (the property fixes the order of values within one field only).
func CanonStored(sv []SVal) []SVal {
	if len(sv) <= 1 {
		return sv
	}
	rest := sv[1:]
	sort.SliceStable(rest, func(a, b int) bool { return rest[a].Field < rest[b].Field })
	return sv
}

// DumpThesaurus lists a thesaurus: terms ascending as iterated, pairs sorted.
func DumpThesaurus(ts segment.ThesaurusSegment, name string, except *roaring.Bitmap) (Thes, error) {
	rv := Thes{Name: name}
	th, err := ts.Thesaurus(name)
	if err != nil {
		return rv, err
	}
	it := th.AutomatonIterator(nil, nil, nil)
	for {
		e, err := it.Next()
		if err != nil {
			return rv, err
		}
		if e == nil {
			break
		}
		tt := ThesTerm{Term: e.Term}
		sl, err := th.SynonymsList([]byte(e.Term), except, nil)
		if err != nil {
			return rv, err
		}
		si := sl.Iterator(nil)
		for {
			s, err := si.Next()
			if err != nil {
				return rv, err
			}
			if s == nil {
				break
			}
			tt.Pairs = append(tt.Pairs, SynPair{s.Term(), uint64(s.Number())})
		}
		sort.Slice(tt.Pairs, func(a, b int) bool {
			if tt.Pairs[a].Syn != tt.Pairs[b].Syn {
				return tt.Pairs[a].Syn < tt.Pairs[b].Syn
			}
			return tt.Pairs[a].Doc < tt.Pairs[b].Doc
		})
		rv.Terms = append(rv.Terms, tt)
	}
	return rv, nil
}
