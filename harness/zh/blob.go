package zh

import (
	"bytes"

	"github.com/RoaringBitmap/roaring/v2"
	"github.com/RoaringBitmap/roaring/v2/roaring64"
	"github.com/blevesearch/vellum"
	"github.com/golang/snappy"

	"zverif/sx"
)

// Blob kinds (coq/Layout.v oracles)
const (
	BlobFST       = 1
	BlobRoaring   = 2
	BlobRoaring64 = 3
	BlobSnappy    = 4
)

var BlobCalls = map[uint64]int{}

// BlobOracle answers the model's blob-decoding questions using the third-party libraries
// directly (no zapx code): (kind #bytes) -> decoded form, or (deadbeef n) on failure.
func BlobOracle(q sx.V) sx.V {
	fail := sx.L(sx.N(0xdeadbeef), sx.N(1))
	if q.K != sx.KList || len(q.L) != 2 || q.L[0].K != sx.KNum || q.L[1].K != sx.KBytes {
		return fail
	}
	data := q.L[1].B
	BlobCalls[q.L[0].N]++
	switch q.L[0].N {
	case BlobFST:
		fst, err := vellum.Load(data)
		if err != nil {
			return fail
		}
		var out []sx.V
		it, err := fst.Iterator(nil, nil)
		for err == nil {
			k, v := it.Current()
			out = append(out, sx.L(sx.B(append([]byte(nil), k...)), sx.N(v)))
			err = it.Next()
		}
		if err != vellum.ErrIteratorDone {
			return fail
		}
		return sx.List(out)
	case BlobRoaring:
		bm := roaring.New()
		if _, err := bm.FromBuffer(append([]byte(nil), data...)); err != nil {
			return fail
		}
		arr := bm.ToArray()
		out := make([]sx.V, len(arr))
		for i, x := range arr {
			out[i] = sx.N(uint64(x))
		}
		return sx.List(out)
	case BlobRoaring64:
		bm := roaring64.New()
		if _, err := bm.ReadFrom(bytes.NewReader(data)); err != nil {
			return fail
		}
		arr := bm.ToArray()
		out := make([]sx.V, len(arr))
		for i, x := range arr {
			out[i] = sx.N(x)
		}
		return sx.List(out)
	case BlobSnappy:
		dec, err := snappy.Decode(nil, data)
		if err != nil {
			return fail
		}
		return sx.B(dec)
	}
	return fail
}
