package zh

import (
	"fmt"
	"sort"
	"strings"
)

// ---------- one PRNG state for every random choice (splitmix64) ----------

type Rng struct{ s uint64 }

func NewRng(seed uint64) *Rng { return &Rng{seed*0x9E3779B97F4A7C15 + 0x1234567} }
func (r *Rng) U64() uint64 {
	r.s += 0x9E3779B97F4A7C15
	z := r.s
	z = (z ^ (z >> 30)) * 0xBF58476D1CE4E5B9
	z = (z ^ (z >> 27)) * 0x94D049BB133111EB
	return z ^ (z >> 31)
}
func (r *Rng) Intn(n int) int {
	if n <= 0 {
		return 0
	}
	return int(r.U64() % uint64(n))
}
func (r *Rng) Bool() bool        { return r.U64()&1 == 1 }
func (r *Rng) Chance(n int) bool { return r.Intn(n) == 0 }
func (r *Rng) Pick(xs []string) string {
	return xs[r.Intn(len(xs))]
}
func (r *Rng) Bytes(n int) []byte {
	b := make([]byte, n)
	for i := range b {
		b[i] = byte(r.U64())
	}
	return b
}
func (r *Rng) Fork() *Rng { return &Rng{r.U64()} }

// ---------- batch generator ----------

// field names on both sides of "_id" in byte order (upper case, digits and "_all" sort before it)
var FieldNames = []string{"body", "title", "tag", "désc", "z", "Title", "0num"}
var Vocab = []string{"", "a", "A", "ab", "abc", "b", "cat", "dog", "naïve", "日本", "zz", "\x00", "the"} // "A"/"a": equal under case folding and adjacent in byte order

type GenOpts struct {
	NDocs       int
	IDBase      string
	NoLocs      bool // tokens never carry locations (merges then produce single-hit entries)
	Freq1       bool // every token has frequency 1
	NFields     int  // number of field names in play (1..len(FieldNames))
	VocabN      int  // vocabulary prefix length
	BigVals     bool // occasionally a stored value larger than a snappy block
	Syn         bool // mix in synonym documents
	DVMask      int
	LongAP      bool
	FixedFields bool  // every document carries every field name in play (identical field lists)
	LongIDs     bool  // occasionally an _id at the byte-length boundaries of its varint length prefix (127..5000 bytes)
	HugeIDs     bool  // with LongIDs: also ids of 16384 .. 65536 bytes
	Geo         bool  // some field instances are geo-shape fields (their encoded shape is an extra doc value)
	DupIDs      bool  // some documents carry the _id of an earlier document of the batch
	FieldSel    []int // when set: the field names in play are FieldNames[FieldSel[0..NFields)] instead of a prefix of FieldNames
}

// FName is the name of the fi-th field in play.
func (o GenOpts) FName(fi int) string {
	if len(o.FieldSel) > 0 {
		return FieldNames[o.FieldSel[fi%len(o.FieldSel)]]
	}
	return FieldNames[fi]
}

func RandOpts(r *Rng, nd int, idbase string) GenOpts {
	return GenOpts{NDocs: nd, IDBase: idbase, NoLocs: r.Chance(4), Freq1: r.Chance(4),
		NFields: 1 + r.Intn(len(FieldNames)), VocabN: 2 + r.Intn(len(Vocab)-1), DVMask: r.Intn(256),
		LongAP: r.Chance(6), FixedFields: r.Chance(3)}
}

func genTok(r *Rng, o GenOpts, term string, compNames []string) Tok {
	t := Tok{Term: term, Freq: uint64(1 + r.Intn(3))}
	if o.Freq1 {
		t.Freq = 1
	} else if r.Chance(8) {
		t.Freq = 0
	}
	if !o.NoLocs && r.Bool() {
		nl := 1 + r.Intn(3)
		for q := 0; q < nl; q++ {
			l := Loc{Pos: uint64(r.Intn(9)), Start: uint64(r.Intn(300)), End: uint64(r.Intn(300))}
			if r.Chance(10) {
				// values at the byte-length boundaries of the varint encoding
				edge := []uint64{127, 128, 129, 16383, 16384, 16385, 2097151, 2097152}
				l.Start = edge[r.Intn(len(edge))]
				if r.Bool() {
					l.End = edge[r.Intn(len(edge))]
				}
				if r.Chance(3) {
					l.Pos = edge[r.Intn(len(edge))]
				}
			}
			if r.Chance(3) {
				n := 1 + r.Intn(2)
				if o.LongAP && r.Chance(2) {
					n = 3 + r.Intn(12)
				}
				for j := 0; j < n; j++ {
					l.AP = append(l.AP, uint64(r.Intn(5)))
				}
				if r.Chance(6) { // array positions whose varint needs more than one byte
					l.AP[r.Intn(len(l.AP))] = []uint64{127, 128, 129, 300, 16384, 1<<32 - 1, 1 << 32, 1<<63 - 1, 1 << 63, 1<<64 - 1}[r.Intn(10)]
				}
			}
			if len(compNames) > 0 && r.Intn(4) != 0 {
				// an occurrence taken from a source field; otherwise the composite field's own occurrence
				l.Field = compNames[r.Intn(len(compNames))]
			}
			t.Locs = append(t.Locs, l)
		}
	}
	return t
}

func genField(r *Rng, o GenOpts, fi int) Field {
	name := o.FName(fi)
	f := Field{Name: name, Typ: byte('a' + r.Intn(3)), TV: r.Intn(3) != 0}
	if r.Chance(12) {
		f.Typ = []byte{0x7f, 0x80, 0x81, 0xe1, 0xff}[r.Intn(5)] // type bytes around and above 0x80 (the type is stored as a uvarint)
	}
	if r.Bool() {
		f.Stored = true
		n := r.Intn(6)
		if r.Chance(8) {
			n = []int{100, 126, 127, 128, 129, 200, 300}[r.Intn(7)] // stored records around the 1-byte / 2-byte length prefixes
		}
		if o.BigVals && r.Chance(10) {
			n = 66000 + r.Intn(9000)
		}
		f.Val = r.Bytes(n)
		if r.Chance(3) {
			n := 1 + r.Intn(3)
			if o.LongAP && r.Chance(2) {
				n = 4 + r.Intn(36)
			}
			for j := 0; j < n; j++ {
				f.AP = append(f.AP, uint64(r.Intn(7)))
			}
		}
	}
	dvbit := fi
	if len(o.FieldSel) > 0 {
		dvbit = o.FieldSel[fi%len(o.FieldSel)] // the doc-value option belongs to the name, not to the position
	}
	if o.DVMask&(1<<dvbit) != 0 {
		f.DV = true
	}
	nt := r.Intn(4)
	seen := map[string]bool{}
	for j := 0; j < nt; j++ {
		term := Vocab[r.Intn(o.VocabN)]
		if seen[term] {
			continue
		}
		seen[term] = true
		f.Toks = append(f.Toks, genTok(r, o, term, nil))
	}
	f.Len = uint64(len(f.Toks) + r.Intn(3))
	if len(f.Toks) > 0 && f.Len == 0 {
		f.Len = 1
	}
	if len(f.Toks) > 0 && r.Chance(10) {
		// analysed lengths whose varint (the norm as stored) has a 0x80 byte or changes its byte length
		edge := []uint64{127, 128, 129, 256, 384, 16383, 16384, 16512}
		f.Len = edge[r.Intn(len(edge))]
	}
	return f
}

// GenBatch produces a mostly-valid structured batch inside the input domain W1..W8.
func GenBatch(r *Rng, o GenOpts) Batch {
	var b Batch
	if o.NFields < 1 {
		o.NFields = 1
	}
	if o.VocabN < 1 {
		o.VocabN = 1
	}
	for i := 0; i < o.NDocs; i++ {
		id := fmt.Sprintf("%s%03d", o.IDBase, i)
		if o.DupIDs && i > 0 && r.Chance(4) {
			id = fmt.Sprintf("%s%03d", o.IDBase, r.Intn(i)) // the id of an earlier document of the batch
		}
		if o.LongIDs && r.Chance(6) {
			lens := []int{127, 128, 129, 255, 256, 257, 300, 1000, 5000}
			if o.HugeIDs {
				lens = append(lens, 16384, 32767, 32768, 65536) // single writes of k*32 KiB
			}
			if n := lens[r.Intn(len(lens))]; n > len(id) {
				id += strings.Repeat("k", n-len(id))
			}
		}
		idf := IDField(id)
		idf.DV = o.DVMask&128 != 0 // _id itself indexed with doc values
		d := Doc{Fields: []Field{idf}}
		names := map[string]bool{}
		if o.FixedFields {
			for fi := 0; fi < o.NFields; fi++ {
				names[o.FName(fi)] = true
				d.Fields = append(d.Fields, genField(r, o, fi))
				if r.Chance(4) { // multi-valued
					d.Fields = append(d.Fields, genField(r, o, fi))
				}
			}
		} else {
			ninst := r.Intn(o.NFields + 2)
			for k := 0; k < ninst; k++ {
				fi := r.Intn(o.NFields)
				names[o.FName(fi)] = true
				d.Fields = append(d.Fields, genField(r, o, fi))
			}
		}
		if r.Chance(5) {
			// a stored array: many values of one field, each with its index path as array positions
			fi := r.Intn(o.NFields)
			names[o.FName(fi)] = true
			k := 2 + r.Intn(14)
			nested := r.Chance(3)
			for e := 0; e < k; e++ {
				f := genField(r, o, fi)
				f.Stored = true
				f.Val = r.Bytes(r.Intn(4))
				f.AP = []uint64{uint64(e)}
				if nested {
					f.AP = append(f.AP, uint64(r.Intn(3)))
				}
				if r.Chance(12) { // sparse arrays keyed by 64-bit numbers
					f.AP[len(f.AP)-1] = []uint64{1 << 32, 1<<63 - 1, 1 << 63, 1<<64 - 1}[r.Intn(4)]
				}
				d.Fields = append(d.Fields, f)
			}
		}
		if r.Chance(3) && len(names) > 0 {
			var ns []string
			for n := range names {
				ns = append(ns, n)
			}
			sort.Strings(ns)
			cf := Field{Name: "_all", Typ: 'c', TV: r.Bool()}
			if o.DVMask&64 != 0 {
				cf.DV = true
			}
			seen := map[string]bool{}
			for j := 0; j < 1+r.Intn(3); j++ {
				term := Vocab[r.Intn(o.VocabN)]
				if seen[term] {
					continue
				}
				seen[term] = true
				cf.Toks = append(cf.Toks, genTok(r, o, term, ns))
			}
			cf.Len = uint64(len(cf.Toks) + 1)
			d.Comps = append(d.Comps, cf)
			if o.FixedFields || r.Chance(5) {
				// a plain field with the composite's name as well: merged into the composite instance
				pf := Field{Name: "_all", Typ: 'x', Len: 1, Toks: []Tok{genTok(r, o, Vocab[r.Intn(o.VocabN)], nil)}}
				d.Fields = append(d.Fields, pf)
			}
		} else if o.FixedFields {
			d.Fields = append(d.Fields, Field{Name: "_all", Typ: 'x', Len: 1, Toks: []Tok{genTok(r, o, Vocab[r.Intn(o.VocabN)], nil)}})
		}
		if o.Geo {
			// at most one geo-shape instance per field name and document, only on instances with a term
			used := map[string]bool{}
			for j := range d.Fields {
				f := &d.Fields[j]
				if f.Name != "_id" && f.Name != "_all" && len(f.Toks) > 0 && len(f.Syn) == 0 && f.Vec == nil && !used[f.Name] && r.Chance(3) {
					used[f.Name] = true
					f.Shape = []byte{0x02, byte(1 + r.Intn(200)), byte(1 + r.Intn(200)), 0x7e}
				}
			}
			// every later instance of that name must not carry a shape (the builder keeps the last one)
		}
		b = append(b, d)
	}
	return b
}

// BoundaryTerm names the k-th term of a boundary batch; the last one is the empty term.
func BoundaryTerm(k, n int) string {
	if k == n-1 && n > 1 {
		return ""
	}
	return fmt.Sprintf("t%d", k)
}

// GenBoundaryBatch builds a large batch in which chosen terms have exactly the requested numbers
// of postings (chunk-size boundaries of modes 1025/1026: 1023, 1024, 1025, 2047, 2048, ...).
// Field "tag" is multi-valued so that instance counts exceed document counts.
func GenBoundaryBatch(r *Rng, ndocs int, cards []int, withLocs bool) Batch {
	var b Batch
	// term k occurs in documents chosen as a random subset of size cards[k]
	member := make([]map[int]bool, len(cards))
	for k, c := range cards {
		if c > ndocs {
			c = ndocs
		}
		member[k] = map[int]bool{}
		perm := make([]int, ndocs)
		for i := range perm {
			perm[i] = i
		}
		for i := 0; i < c; i++ {
			j := i + r.Intn(ndocs-i)
			perm[i], perm[j] = perm[j], perm[i]
			member[k][perm[i]] = true
		}
	}
	for i := 0; i < ndocs; i++ {
		id := fmt.Sprintf("L%05d", i)
		d := Doc{Fields: []Field{IDField(id)}}
		var toks1, toks2 []Tok
		for k := range cards {
			if member[k][i] {
				term := BoundaryTerm(k, len(cards))
				t := Tok{Term: term, Freq: uint64(1 + (i+k)%3)}
				if withLocs && (i+k)%2 == 0 {
					t.Locs = []Loc{{Pos: uint64(i % 7), Start: uint64(i), End: uint64(i + k + 1)}}
				}
				toks1 = append(toks1, t)
				if (i+k)%3 == 0 { // the same term again in a second value of the field
					t2 := Tok{Term: term, Freq: 1}
					if withLocs && i%2 == 0 {
						t2.Locs = []Loc{{Pos: 1, Start: 2, End: 3, AP: []uint64{1}}}
					}
					toks2 = append(toks2, t2)
				}
			}
		}
		d.Fields = append(d.Fields, Field{Name: "tag", DV: i%2 == 0, Len: uint64(len(toks1) + 1), Toks: toks1, AP: []uint64{0}})
		if len(toks2) > 0 {
			d.Fields = append(d.Fields, Field{Name: "tag", Len: uint64(len(toks2)), Toks: toks2, AP: []uint64{1}})
		}
		if i%97 == 0 {
			d.Fields = append(d.Fields, Field{Name: "body", Stored: true, Typ: 't', Val: []byte(id), Len: 1,
				Toks: []Tok{{Term: "x", Freq: 1}}})
		}
		b = append(b, d)
	}
	return b
}

// Stats describes a batch for the evidence file's input distribution.
type BatchStats struct {
	Docs, Fields, Tokens, Locs, MultiValued, Composite, Freq0, EmptyTerm, NonASCII, WithAP int
}

func (b Batch) Stats() BatchStats {
	var s BatchStats
	s.Docs = len(b)
	for _, d := range b {
		seen := map[string]int{}
		s.Composite += len(d.Comps)
		for _, fs := range [][]Field{d.Comps, d.Fields} {
			for _, f := range fs {
				s.Fields++
				seen[f.Name]++
				for _, t := range f.Toks {
					s.Tokens++
					s.Locs += len(t.Locs)
					if t.Freq == 0 {
						s.Freq0++
					}
					if t.Term == "" {
						s.EmptyTerm++
					}
					for _, c := range []byte(t.Term) {
						if c >= 0x80 {
							s.NonASCII++
							break
						}
					}
					for _, l := range t.Locs {
						if len(l.AP) > 0 {
							s.WithAP++
						}
					}
				}
			}
		}
		for _, n := range seen {
			if n > 1 {
				s.MultiValued++
			}
		}
	}
	return s
}

// SynEmptyChance: one in so many synonym fields defines nothing
var SynEmptyChance = 9

// SharedThesNames lets AddSynDocs name a thesaurus like an ordinary field (data in two sections)
var SharedThesNames = true

var ThesNames = []string{"syn1", "syn2", "thesaurus"}
var SynVocab = []string{"happy", "glad", "joyful", "big", "large", "huge", "b", "B", "cat", "日本", "x", "tzdeoeb", "xfbinkd"} // the last two have the same CRC-32 // "B"/"b": case twins, adjacent in byte order

// AddSynDocs mixes synonym documents into a batch (W6: >= 1 synonym per definition, non-empty strings;
// a thesaurus may be named like an ordinary field, see SharedThesNames).
func AddSynDocs(r *Rng, b Batch, idbase string) Batch {
	nth := 1 + r.Intn(len(ThesNames))
	n := 1 + r.Intn(4)
	for i := 0; i < n; i++ {
		id := fmt.Sprintf("%ssyn%02d", idbase, i)
		d := Doc{Fields: []Field{IDField(id)}}
		k := 1 + r.Intn(2)
		used := map[string]bool{}
		for j := 0; j < k; j++ {
			th := ThesNames[r.Intn(nth)]
			if SharedThesNames && r.Chance(5) {
				// a thesaurus named like an ordinary (possibly doc-value) field of the batch
				th = FieldNames[r.Intn(3)]
			}
			if used[th] {
				continue
			}
			used[th] = true
			f := Field{Name: th, Typ: 's'}
			nd := 1 + r.Intn(3)
			seenT := map[string]bool{}
			twins := r.Chance(8) // exactly the case twins
			if twins {
				nd = 2
			} else if r.Chance(SynEmptyChance) {
				nd = 0 // a synonym field that defines nothing (a thesaurus without terms)
			}
			for q := 0; q < nd; q++ {
				term := SynVocab[r.Intn(len(SynVocab))]
				if twins {
					term = []string{"B", "b"}[q]
				}
				if seenT[term] {
					continue
				}
				seenT[term] = true
				sd := SynDef{Term: term}
				ns := 1 + r.Intn(3)
				seenS := map[string]bool{}
				for w := 0; w < ns; w++ {
					s := SynVocab[r.Intn(len(SynVocab))]
					if seenS[s] {
						continue
					}
					seenS[s] = true
					sd.Syns = append(sd.Syns, s)
				}
				f.Syn = append(f.Syn, sd)
			}
			d.Fields = append(d.Fields, f)
		}
		// insert at a random position so that thesauri interleave with ordinary documents
		pos := r.Intn(len(b) + 1)
		b = append(b[:pos], append(Batch{d}, b[pos:]...)...)
	}
	return b
}

// InDomain checks the clause of the input domain that generators and the shrinker can break (W2): a
// location's source field is empty (= the field itself) or names a field that occurs in the batch.
func (b Batch) InDomain() bool {
	names := map[string]bool{}
	for _, d := range b {
		for _, fs := range [][]Field{d.Comps, d.Fields} {
			for _, f := range fs {
				names[f.Name] = true
			}
		}
	}
	for _, d := range b {
		hasID := false
		for _, f := range d.Fields {
			if f.Name == "_id" && f.Stored {
				hasID = true
			}
		}
		if !hasID {
			return false
		}
		for _, fs := range [][]Field{d.Comps, d.Fields} {
			for _, f := range fs {
				for _, t := range f.Toks {
					for _, l := range t.Locs {
						if l.Field != "" && !names[l.Field] {
							return false
						}
					}
				}
			}
		}
	}
	return true
}
