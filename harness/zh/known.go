package zh

import (
	"encoding/json"
	"os"
)

// KnownFinding is one entry of /verif/known_findings.json (committed; never written at run time).
type KnownFinding struct {
	Property  string `json:"property"`
	Status    string `json:"status"` // "known" | "fixed"
	Signature string `json:"signature"`
	What      string `json:"what"`
	Commit    string `json:"commit,omitempty"`
}
type KnownFindings struct{ Items []KnownFinding }

func LoadKnownFindings(path string) (*KnownFindings, error) {
	b, err := os.ReadFile(path)
	if err != nil {
		if os.IsNotExist(err) {
			return &KnownFindings{}, nil
		}
		return nil, err
	}
	var k KnownFindings
	if err := json.Unmarshal(b, &k.Items); err != nil {
		return nil, err
	}
	return &k, nil
}

// Match returns the known (unfixed) finding with this property and signature, if any.
func (k *KnownFindings) Match(prop, signature string) *KnownFinding {
	for i := range k.Items {
		it := &k.Items[i]
		if it.Property == prop && it.Status == "known" && it.Signature == signature {
			return it
		}
	}
	return nil
}
