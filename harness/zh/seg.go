package zh

import (
	"bytes"
	"fmt"
	"os"
	"path/filepath"
	"sync"
	"sync/atomic"

	"github.com/RoaringBitmap/roaring/v2"
	segment "github.com/blevesearch/scorch_segment_api/v2"
	zap "github.com/blevesearch/zapx/v16"

	"zverif/model"
	"zverif/sx"
)

// Request codes of coq/Handle.v
const (
	ReqRef         = 1
	ReqFooter      = 2
	ReqSpecBuild   = 3
	ReqParse       = 4
	ReqSpecMerge   = 5
	ReqIter        = 6
	ReqDict        = 7
	ReqKernel      = 8
	ReqDvVisit     = 9
	ReqPool        = 10
	ReqIO          = 11
	ReqVecCache    = 12
	ReqVecSearch   = 13
	ReqCancel      = 14
	ReqVecFault    = 15
	ReqSpecVec     = 16
	ReqStoredVisit = 17
	ReqReuse       = 18
	ReqMergeVec    = 19
	ReqEnum        = 20
	ReqBuilder     = 21
	ReqDvBuild     = 22
	ReqStoredBuild = 23
)

var Plugin = &zap.ZapPlugin{}

// Build builds an in-memory segment from freshly constructed documents.
func Build(b Batch, mode uint32) (sb *zap.SegmentBase, size uint64, err error) {
	err = safely("New", func() error {
		s, n, e := zap.VerifNew(b.Fresh(), mode)
		if e != nil {
			return e
		}
		sb = s.(*zap.SegmentBase)
		size = n
		return nil
	})
	return
}

// FileBytes returns the bytes WriteTo emits for an in-memory segment.
func FileBytes(sb *zap.SegmentBase) ([]byte, error) {
	var buf bytes.Buffer
	_, err := sb.WriteTo(&buf)
	return buf.Bytes(), err
}

var tmpDir string

func TmpDir() string {
	if tmpDir == "" {
		d, err := os.MkdirTemp("", "zverif-")
		if err != nil {
			panic(err)
		}
		tmpDir = d
	}
	return tmpDir
}
func CleanTmp() {
	if tmpDir != "" {
		os.RemoveAll(tmpDir)
	}
}

var tmpSeq int64
var tmpOnce sync.Once

func TmpPath(tag string) string {
	tmpOnce.Do(func() { TmpDir() })
	n := atomic.AddInt64(&tmpSeq, 1)
	return filepath.Join(tmpDir, fmt.Sprintf("%s-%d.zap", tag, n))
}

// PersistOpen persists sb to a fresh path and opens it (mmap).
func PersistOpen(sb *zap.SegmentBase) (*zap.Segment, string, error) {
	path := TmpPath("p")
	if err := zap.PersistSegmentBase(sb, path); err != nil {
		return nil, path, err
	}
	s, err := Plugin.Open(path)
	if err != nil {
		return nil, path, err
	}
	return s.(*zap.Segment), path, nil
}

// CountReporter is a StatsReporter that adds up what it is told.
type CountReporter struct{ N uint64 }

func (r *CountReporter) ReportBytesWritten(n uint64) { atomic.AddUint64(&r.N, n) }

var mergeCalls uint64

// Merge merges segments into a fresh path with an explicit chunk mode.  Callers alternate between a
// nil and a counting StatsReporter, and - when the mode is the default one - between the public
// plugin method (Merge of the segment API) and the package's mergeSegmentBases.
func Merge(segs []segment.Segment, drops []*roaring.Bitmap, mode uint32) (maps [][]uint64, size uint64, path string, err error) {
	path = TmpPath("m")
	k := atomic.AddUint64(&mergeCalls, 1)
	var rep segment.StatsReporter
	if k%2 == 0 {
		rep = &CountReporter{}
	}
	err = safely("Merge", func() error {
		var e error
		if mode == zap.DefaultChunkMode && k%4 < 2 {
			maps, size, e = Plugin.Merge(segs, drops, path, nil, rep)
		} else {
			maps, size, e = zap.VerifMerge(segs, drops, path, mode, nil, rep)
		}
		return e
	})
	return
}

// SpecOf asks the model for spec_of_batch.
func SpecOf(m *model.Client, b Batch) (sx.V, error) {
	a, err := m.Ask(sx.L(sx.N(ReqSpecBuild), b.Sx()))
	if err != nil {
		return a, err
	}
	if code, bad := sx.IsErr(a); bad {
		return a, fmt.Errorf("model error %d on spec_of_batch", code)
	}
	return a, nil
}
