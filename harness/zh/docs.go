// Package zh holds the harness library: input documents, generators, observation ("dump") of
// segments through the public API, canonical content, evidence and replay writers.
package zh

import (
	index "github.com/blevesearch/bleve_index_api"

	"zverif/sx"
)

// ---------- the input batch, in the shape of coq/Spec.v ----------

type Loc struct {
	Field           string
	Pos, Start, End uint64
	AP              []uint64
}
type Tok struct {
	Term string
	Freq uint64
	Locs []Loc
}
type SynDef struct {
	Term string
	Syns []string
}
type VecDef struct {
	Dims int
	Sim  string
	Opt  string
	Data []float32
}
type Field struct {
	Name   string
	Stored bool
	DV     bool
	Typ    byte
	Val    []byte
	AP     []uint64
	Len    uint64
	Toks   []Tok
	Syn    []SynDef
	Vec    *VecDef
	TV     bool   // the IncludeTermVectors option (zapx stores locations whether or not it is set)
	Shape  []byte // geo-shape field: the encoded shape (an extra doc value of the document, Spec.doc_shape)
}
type Doc struct {
	Comps  []Field
	Fields []Field
}
type Batch []Doc

func (d *Doc) ID() string {
	for _, f := range d.Fields {
		if f.Name == "_id" && f.Stored {
			return string(f.Val)
		}
	}
	return ""
}

// IDField is what bleve's AddIDField produces.
func IDField(id string) Field {
	return Field{Name: "_id", Stored: true, Typ: 't', Val: []byte(id), Len: 1,
		Toks: []Tok{{Term: id, Freq: 1}}}
}

// ---------- wire form ----------

func locSx(l Loc) sx.V {
	return sx.L(sx.S(l.Field), sx.N(l.Pos), sx.N(l.Start), sx.N(l.End), sx.Nums(l.AP))
}
func fieldSx(f Field) sx.V {
	toks := make([]sx.V, len(f.Toks))
	for i, t := range f.Toks {
		ls := make([]sx.V, len(t.Locs))
		for j, l := range t.Locs {
			ls[j] = locSx(l)
		}
		toks[i] = sx.L(sx.S(t.Term), sx.N(t.Freq), sx.List(ls))
	}
	syns := make([]sx.V, len(f.Syn))
	for i, s := range f.Syn {
		ss := make([]sx.V, len(s.Syns))
		for j, x := range s.Syns {
			ss[j] = sx.S(x)
		}
		syns[i] = sx.L(sx.S(s.Term), sx.List(ss))
	}
	vec := sx.L()
	if f.Vec != nil {
		data := make([]sx.V, len(f.Vec.Data))
		for i, x := range f.Vec.Data {
			data[i] = sx.N(uint64(f32bits(x)))
		}
		vec = sx.L(sx.I(f.Vec.Dims), sx.S(f.Vec.Sim), sx.S(f.Vec.Opt), sx.List(data))
	}
	if f.Shape != nil {
		// a geo-shape field: an eleventh element carries the encoded shape
		return sx.L(sx.S(f.Name), sx.Bool(f.Stored), sx.Bool(f.DV), sx.N(uint64(f.Typ)), sx.B(f.Val),
			sx.Nums(f.AP), sx.N(f.Len), sx.List(toks), sx.List(syns), vec, sx.L(sx.B(f.Shape)))
	}
	return sx.L(sx.S(f.Name), sx.Bool(f.Stored), sx.Bool(f.DV), sx.N(uint64(f.Typ)), sx.B(f.Val),
		sx.Nums(f.AP), sx.N(f.Len), sx.List(toks), sx.List(syns), vec)
}
func docSx(d Doc) sx.V {
	cs := make([]sx.V, len(d.Comps))
	for i, f := range d.Comps {
		cs[i] = fieldSx(f)
	}
	fs := make([]sx.V, len(d.Fields))
	for i, f := range d.Fields {
		fs[i] = fieldSx(f)
	}
	return sx.L(sx.List(cs), sx.List(fs))
}
func (b Batch) Sx() sx.V {
	ds := make([]sx.V, len(b))
	for i, d := range b {
		ds[i] = docSx(d)
	}
	return sx.List(ds)
}

// ---------- bleve_index_api implementations (always freshly constructed: the builder mutates
// the token frequencies of the first same-named field of a document) ----------

type apiField struct {
	f   *Field
	tfs index.TokenFrequencies
}

func (a *apiField) Name() string             { return a.f.Name }
func (a *apiField) Value() []byte            { return a.f.Val }
func (a *apiField) ArrayPositions() []uint64 { return a.f.AP }
func (a *apiField) EncodedFieldType() byte   { return a.f.Typ }
func (a *apiField) Analyze()                 {}
func (a *apiField) Options() index.FieldIndexingOptions {
	o := index.IndexField
	if a.f.Stored {
		o |= index.StoreField
	}
	if a.f.DV {
		o |= index.DocValues
	}
	if a.f.TV {
		o |= index.IncludeTermVectors
	}
	return o
}
func (a *apiField) AnalyzedLength() int                              { return int(a.f.Len) }
func (a *apiField) AnalyzedTokenFrequencies() index.TokenFrequencies { return a.tfs }
func (a *apiField) NumPlainTextBytes() uint64                        { return 0 }
func (a *apiField) Compose(string, int, index.TokenFrequencies)      {}

type apiSynField struct{ apiField }

func (a *apiSynField) IterateSynonyms(visitor func(term string, synonyms []string)) {
	for _, s := range a.f.Syn {
		visitor(s.Term, s.Syns)
	}
}

// apiGeoField is a geo-shape field: the builder adds its encoded shape to the field's doc values.
type apiGeoField struct{ apiField }

func (a *apiGeoField) GeoShape() (index.GeoJSON, error) { return nil, nil }
func (a *apiGeoField) EncodedShape() []byte             { return a.f.Shape }

type apiVecField struct{ apiField }

func (a *apiVecField) Vector() []float32         { return a.f.Vec.Data }
func (a *apiVecField) Dims() int                 { return a.f.Vec.Dims }
func (a *apiVecField) Similarity() string        { return a.f.Vec.Sim }
func (a *apiVecField) IndexOptimizedFor() string { return a.f.Vec.Opt }

type apiDoc struct {
	id     string
	fields []index.Field
	comps  []index.CompositeField
}

func (d *apiDoc) ID() string                { return d.id }
func (d *apiDoc) Size() int                 { return 0 }
func (d *apiDoc) HasComposite() bool        { return len(d.comps) > 0 }
func (d *apiDoc) NumPlainTextBytes() uint64 { return 0 }
func (d *apiDoc) AddIDField()               {}
func (d *apiDoc) StoredFieldsBytes() uint64 { return 0 }
func (d *apiDoc) Indexed() bool             { return true }
func (d *apiDoc) VisitFields(v index.FieldVisitor) {
	for _, f := range d.fields {
		v(f)
	}
}
func (d *apiDoc) VisitComposite(v index.CompositeFieldVisitor) {
	for _, f := range d.comps {
		v(f)
	}
}

type apiSynDoc struct{ apiDoc }

func (d *apiSynDoc) VisitSynonymFields(v index.SynonymFieldVisitor) {
	for _, f := range d.fields {
		if sf, ok := f.(index.SynonymField); ok {
			v(sf)
		}
	}
}

func mkTFs(f *Field) index.TokenFrequencies {
	if len(f.Toks) == 0 {
		return nil
	}
	tfs := make(index.TokenFrequencies, len(f.Toks))
	for _, t := range f.Toks {
		tf := &index.TokenFreq{Term: []byte(t.Term)}
		tf.SetFrequency(int(t.Freq))
		for _, l := range t.Locs {
			var ap []uint64
			if l.AP != nil {
				ap = append([]uint64{}, l.AP...)
			}
			tf.Locations = append(tf.Locations, &index.TokenLocation{Field: l.Field, ArrayPositions: ap,
				Start: int(l.Start), End: int(l.End), Position: int(l.Pos)})
		}
		tfs[t.Term] = tf
	}
	return tfs
}

// Fresh converts a batch into newly allocated API documents.
func (b Batch) Fresh() []index.Document {
	rv := make([]index.Document, len(b))
	for i := range b {
		d := &b[i]
		ad := apiDoc{id: d.ID()}
		hasSyn := false
		for j := range d.Comps {
			f := &d.Comps[j]
			ad.comps = append(ad.comps, &apiField{f, mkTFs(f)})
		}
		for j := range d.Fields {
			f := &d.Fields[j]
			switch {
			case len(f.Syn) > 0 || (f.Typ == 's' && f.Vec == nil && f.Shape == nil && len(f.Toks) == 0):
				// (a synonym field may define nothing: everything was analysed away)
				hasSyn = true
				ad.fields = append(ad.fields, &apiSynField{apiField{f, mkTFs(f)}})
			case f.Vec != nil:
				ad.fields = append(ad.fields, &apiVecField{apiField{f, mkTFs(f)}})
			case f.Shape != nil:
				ad.fields = append(ad.fields, &apiGeoField{apiField{f, mkTFs(f)}})
			default:
				ad.fields = append(ad.fields, &apiField{f, mkTFs(f)})
			}
		}
		if hasSyn {
			rv[i] = &apiSynDoc{ad}
		} else {
			rv[i] = &ad
		}
	}
	return rv
}
