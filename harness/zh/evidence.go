package zh

import (
	"encoding/json"
	"fmt"
	"os"
	"path/filepath"
	"sort"
	"sync/atomic"
	"time"
)

// ProofStatus is written by ./check after the Coq build (parsed from the build log).
type ProofItem struct {
	Name   string `json:"name"`
	File   string `json:"file"`
	OK     bool   `json:"ok"`
	Axioms string `json:"axioms"`
}
type ProofStatus struct {
	BuildOK   bool        `json:"build_ok"`
	FailedAt  string      `json:"failed_at"` // file / lemma of the first coqc error, if any
	Error     string      `json:"error"`
	Theorems  []ProofItem `json:"theorems"` // property theorems of this property
	Ties      []ProofItem `json:"ties"`     // translator tie lemmas in this property's cone
	Checker   string      `json:"checker_cmd"`
	Coqchk    string      `json:"coqchk"`
	GenChange bool        `json:"gen_changed"`
}

type Evidence struct {
	PropertyID    string                 `json:"property_id"`
	Tier          string                 `json:"tier"`
	Seed          int64                  `json:"seed"`
	Level         string                 `json:"level"`
	Coverage      map[string]interface{} `json:"coverage"`
	Assumptions   []string               `json:"assumptions"`
	WallS         float64                `json:"wall_s"`
	Violations    int                    `json:"violations"`
	KnownFindings []string               `json:"known_findings,omitempty"`
}

// Run is the per-check context.
type Run struct {
	Prop        string
	Tier        string
	Seed        uint64
	Root        string // /verif
	Start       time.Time
	Proof       *ProofStatus
	Evals       int
	distinct    map[string]bool
	Samples     []interface{}
	Dist        map[string]int
	Rule        string
	Exhaustive  bool
	Violations  []string // replay paths
	Known       []string
	Assumptions []string
	Extra       map[string]interface{}
	nReplay     int
}

func NewRun(prop, tier string, seed uint64, root string) *Run {
	if old, _ := filepath.Glob(filepath.Join(root, "replays", fmt.Sprintf("%s-%s-%d-*.txt", prop, tier, seed))); old != nil {
		for _, f := range old {
			os.Remove(f)
		}
	}
	return &Run{Prop: prop, Tier: tier, Seed: seed, Root: root, Start: time.Now(),
		distinct: map[string]bool{}, Dist: map[string]int{}, Extra: map[string]interface{}{}}
}

// Case counts one evaluated case; key identifies it for the distinct count; nontrivial by the rule.
// Progress counts the bookkeeping calls of the running check; the watchdog in cmd/zcheck reads it.
var Progress int64

func (r *Run) Case(key string, nontrivial bool) {
	atomic.AddInt64(&Progress, 1)
	r.Evals++
	if nontrivial {
		r.distinct[key] = true
	}
}
func (r *Run) Count(what string)         { atomic.AddInt64(&Progress, 1); r.Dist[what]++ }
func (r *Run) CountN(what string, n int) { atomic.AddInt64(&Progress, 1); r.Dist[what] += n }
func (r *Run) Sample(s interface{}) {
	if len(r.Samples) < 3 {
		r.Samples = append(r.Samples, s)
	}
}

// Violation writes a replay file and prints the VIOLATION line.
func (r *Run) Violation(body string, noInput bool) {
	r.nReplay++
	dir := filepath.Join(r.Root, "replays")
	os.MkdirAll(dir, 0o755)
	path := filepath.Join(dir, fmt.Sprintf("%s-%s-%d-%d.txt", r.Prop, r.Tier, r.Seed, r.nReplay))
	hdr := fmt.Sprintf("property=%s tier=%s seed=%d\n", r.Prop, r.Tier, r.Seed)
	os.WriteFile(path, []byte(hdr+body+"\n"), 0o644)
	r.Violations = append(r.Violations, path)
	if noInput {
		fmt.Printf("VIOLATION property=%s replay=%s no-failing-input-found\n", r.Prop, path)
	} else {
		fmt.Printf("VIOLATION property=%s replay=%s\n", r.Prop, path)
	}
}

func (r *Run) KnownFinding(what string) {
	for _, k := range r.Known {
		if k == what {
			return
		}
	}
	r.Known = append(r.Known, what)
	fmt.Printf("KNOWN-FINDING: property=%s %s\n", r.Prop, what)
}

// Finish writes evidence/<prop>.json and returns the process exit code.
func (r *Run) Finish() int {
	cov := map[string]interface{}{
		"evaluations":         r.Evals,
		"distinct_nontrivial": len(r.distinct),
		"rule":                r.Rule,
		"samples":             r.Samples,
		"input_distribution":  r.Dist,
		"exhaustive":          r.Exhaustive,
	}
	if len(r.Samples) == 0 {
		cov["samples"] = []interface{}{"(no case was generated)"}
	}
	for k, v := range r.Extra {
		cov[k] = v
	}
	tb := []string{
		"Coq 8.16.1 kernel (coqc, incl. vm_compute); no native_compute",
		"hand-written Gallina model of the zapx logic (coq/*.v); Section hypotheses for vellum/roaring/snappy codecs",
		"translator tools/gotrans (Go AST -> coq/gen/KernelGen.v)",
		"extraction with ExtrOcamlBasic only; OCaml 4.13.1; hand-written driver ocaml/zmodel.ml",
		"Go harness (generators, dump, canonicalisation, blob-decoding co-process using vellum/roaring/snappy directly)",
	}
	ob, dis := 0, 0
	var names []string
	if r.Proof != nil {
		for _, t := range append(append([]ProofItem{}, r.Proof.Theorems...), r.Proof.Ties...) {
			ob++
			if t.OK {
				dis++
			}
			ax := t.Axioms
			if ax == "" {
				ax = "?"
			}
			names = append(names, fmt.Sprintf("%s [%s] ok=%v axioms=%s", t.Name, t.File, t.OK, ax))
		}
		cov["checker_cmd"] = r.Proof.Checker
		if r.Proof.Coqchk != "" {
			cov["coqchk"] = r.Proof.Coqchk
		}
	} else {
		cov["checker_cmd"] = "(proof status not supplied)"
	}
	sort.Strings(names)
	cov["obligations"] = ob
	cov["discharged"] = dis
	cov["theorems"] = names
	cov["trusted_base"] = tb
	ev := Evidence{PropertyID: r.Prop, Tier: r.Tier, Seed: int64(r.Seed), Level: "proof", Coverage: cov,
		Assumptions: r.Assumptions, WallS: time.Since(r.Start).Seconds(), Violations: len(r.Violations),
		KnownFindings: r.Known}
	if ev.Assumptions == nil {
		ev.Assumptions = []string{}
	}
	out, _ := json.MarshalIndent(ev, "", " ")
	os.MkdirAll(filepath.Join(r.Root, "evidence"), 0o755)
	os.WriteFile(filepath.Join(r.Root, "evidence", r.Prop+".json"), append(out, '\n'), 0o644)
	if len(r.Violations) > 0 {
		return 1
	}
	return 0
}
