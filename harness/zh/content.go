package zh

import (
	"math"
	"sort"

	"zverif/sx"
)

func f32bits(x float32) uint32 { return math.Float32bits(x) }

// ---------- canonical content of a segment (shape of coq/Spec.v `content`) ----------

type Hit struct {
	Doc, Freq, Norm uint64
	Locs            []Loc
}
type SVal struct {
	Field string
	Typ   byte
	Val   []byte
	AP    []uint64
}
type TermHits struct {
	Term string
	Hits []Hit
}
type FieldDict struct {
	Field string
	Terms []TermHits
}
type DocTerms struct {
	Doc   uint64
	Terms []string
}
type FieldDV struct {
	Field string
	Docs  []DocTerms
}
type SynPair struct {
	Syn string
	Doc uint64
}
type ThesTerm struct {
	Term  string
	Pairs []SynPair
}
type Thes struct {
	Name  string
	Terms []ThesTerm
}
type Content struct {
	NDocs    uint64
	Fields   []string
	Dicts    []FieldDict
	Stored   [][]SVal
	DVFields []string
	DV       []FieldDV
	Thes     []Thes
}

func hitSx(h Hit) sx.V {
	ls := make([]sx.V, len(h.Locs))
	for i, l := range h.Locs {
		ls[i] = locSx(l)
	}
	return sx.L(sx.N(h.Doc), sx.N(h.Freq), sx.N(h.Norm), sx.List(ls))
}

func strs(xs []string) sx.V {
	l := make([]sx.V, len(xs))
	for i, x := range xs {
		l[i] = sx.S(x)
	}
	return sx.List(l)
}

// CanonFields puts "_id" first and the rest ascending (Fields is compared as a set).
func CanonFields(fs []string) []string {
	var rest []string
	has := false
	seen := map[string]bool{}
	for _, f := range fs {
		if seen[f] {
			continue
		}
		seen[f] = true
		if f == "_id" {
			has = true
		} else {
			rest = append(rest, f)
		}
	}
	sort.Strings(rest)
	if has {
		return append([]string{"_id"}, rest...)
	}
	return rest
}

func (c *Content) DictsSx() sx.V {
	ds := make([]sx.V, len(c.Dicts))
	for i, d := range c.Dicts {
		ts := make([]sx.V, len(d.Terms))
		for j, t := range d.Terms {
			hs := make([]sx.V, len(t.Hits))
			for k, h := range t.Hits {
				hs[k] = hitSx(h)
			}
			ts[j] = sx.L(sx.S(t.Term), sx.List(hs))
		}
		ds[i] = sx.L(sx.S(d.Field), sx.List(ts))
	}
	return sx.List(ds)
}
func (c *Content) StoredSx() sx.V {
	st := make([]sx.V, len(c.Stored))
	for i, d := range c.Stored {
		vs := make([]sx.V, len(d))
		for j, v := range d {
			vs[j] = sx.L(sx.S(v.Field), sx.N(uint64(v.Typ)), sx.B(v.Val), sx.Nums(v.AP))
		}
		st[i] = sx.List(vs)
	}
	return sx.List(st)
}
func (c *Content) DVSx() sx.V {
	dv := make([]sx.V, len(c.DV))
	for i, d := range c.DV {
		ds := make([]sx.V, len(d.Docs))
		for j, dt := range d.Docs {
			ds[j] = sx.L(sx.N(dt.Doc), strs(dt.Terms))
		}
		dv[i] = sx.L(sx.S(d.Field), sx.List(ds))
	}
	return sx.List(dv)
}
func (c *Content) ThesSx() sx.V {
	th := make([]sx.V, len(c.Thes))
	for i, t := range c.Thes {
		ts := make([]sx.V, len(t.Terms))
		for j, tt := range t.Terms {
			ps := make([]sx.V, len(tt.Pairs))
			for k, p := range tt.Pairs {
				ps[k] = sx.L(sx.S(p.Syn), sx.N(p.Doc))
			}
			ts[j] = sx.L(sx.S(tt.Term), sx.List(ps))
		}
		th[i] = sx.L(sx.S(t.Name), sx.List(ts))
	}
	return sx.List(th)
}

// Sx renders the content in the exact form coq/Wire.v `sx_of_content` prints.
func (c *Content) Sx() sx.V {
	return sx.L(sx.N(c.NDocs), strs(c.Fields), c.DictsSx(), c.StoredSx(), strs(c.DVFields), c.DVSx(), c.ThesSx())
}

// Part names for diff reports, in wire order.
var ContentParts = []string{"ndocs", "fields", "dicts", "stored", "dvfields", "dv", "thes"}

// DiffParts lists which components of two contents (wire form) differ.
func DiffParts(a, b sx.V) []string {
	var rv []string
	if a.K != sx.KList || b.K != sx.KList || len(a.L) != len(ContentParts) || len(b.L) != len(ContentParts) {
		return []string{"shape"}
	}
	for i, p := range ContentParts {
		if !sx.Equal(a.L[i], b.L[i]) {
			rv = append(rv, p)
		}
	}
	return rv
}

// NormalizeMerged applies the canonicalisation used for merged segments: a doc-value field none of
// whose surviving documents has a term may or may not be listed as visitable (C06 fixes the visits,
// not that list), so only fields with at least one entry are kept.
func (c *Content) NormalizeMerged() {
	var dv []FieldDV
	var names []string
	for _, d := range c.DV {
		if len(d.Docs) > 0 {
			dv = append(dv, d)
			names = append(names, d.Field)
		}
	}
	c.DV = dv
	c.DVFields = names
}
